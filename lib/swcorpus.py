"""Corpus of specification-made frames (OFSwGen.tla): switch-originated kinds, packet-in with packets, multipart replies, and
controller-originated kinds.  Used by C04 (parse), C12 (ownership) and as base frames by C07."""
import pipeline
import vlib

SUB, JUDGE = "parse", "OFParseTrace"
FAMS = {"SW": 16, "PI": 90, "MP": 20, "CT": 80, "XO": 12}


def gen(ctx, fam, tags):
    cfg = "SPECIFICATION Spec\nCONSTANTS\n  Family = \"%s\"\n  Tags = %s\n" % (fam, tags)
    return pipeline.gen_tlc(ctx, "OFSwGen", cfg, "OFSwGen[%s]" % fam, fam, expect_min=FAMS.get(fam, 2) // 2, workers=8, xmx="12g")


def run(ctx, prop, tags_quick="{7, 61}", tags_thorough="{7, 61, 1000, 2000, 3000}"):
    recs, counts = [], {}
    tags = tags_quick if ctx.quick() else tags_thorough
    for fam in FAMS:
        p, n = gen(ctx, fam, tags)
        counts[fam] = n
        recs += pipeline.run_family(ctx, SUB, p, JUDGE, constants="  Prop = \"%s\"\n" % prop, max_lines=3000)[1]
    ctx.extra.update(families=counts, distinct_nontrivial=sum(counts.values()))
    return recs


def settle(ctx, prop, recs):
    return pipeline.settle(ctx, SUB, JUDGE, "  Prop = \"%s\"\n" % prop, recs,
                           sig=lambda r: "%s|%s|%s" % (r.get("fam"), r.get("kind"), r.get("pred", "?")), max_report=12)
