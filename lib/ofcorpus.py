"""Shared driver of the construction-scenario corpus (OFGen.tla -> harness build -> OFTrace.tla),
used by C01, C02, C03, C06 and C13, each with its own predicate group."""
import pipeline
import vlib

SUB, JUDGE = "build", "OFTrace"

# family -> (quick: tags, stride), (thorough: tags, stride), expected minimum
FAMILIES = {
    "A1": (("{7, 1000}", 1), ("{7, 1000, 2000, 3000, 4000, 61}", 1), 200),      # zero is "unset / default" for many fields: always in
    "A2": (("{7}", 9), ("{7, 2000, 61}", 1), 800),
    "M1": (("{7, 2000, 1000}", 1), ("{7, 1000, 2000, 3000, 4000, 61}", 1), 100),
    "M2": (("{7}", 11), ("{7, 1000, 2000}", 1), 400),
    "MR": (("{7}", 3), ("{7, 2000, 61}", 1), 100),          # the stride thins only the generic-builder part
    "I": (("{7}", 1), ("{7, 2000, 61}", 1), 500),
    "G": (("{7}", 1), ("{7, 1000, 2000}", 1), 100),
    "S": (("{7, 2000}", 1), ("{7, 1000, 2000, 3000, 4000, 61}", 1), 30),
    "W": (("{7}", 1), ("{7, 1000, 2000, 61, 3000}", 1), 17),
    "O": (("{7}", 1), ("{7, 61, 2000, 1000}", 1), 20),
    "P": (("{7}", 1), ("{7, 1000, 2000}", 1), 18),
    "B": (("{7}", 1), ("{7}", 1), 4),
    "L": (("{7}", 1), ("{7, 2000, 61, 1000}", 1), 150),
    "N": (("{7}", 1), ("{7, 1000, 2000}", 1), 90),
    "T": (("{7, 61}", 1), ("{7, 61, 2000, 1000}", 1), 7),
    "PL": (("{7}", 4), ("{7, 61}", 1), 60),                        # pipelined messages: handed-out encodings stay intact
    "R": (("{7}", 1), ("{7}", 1), 100),                           # random deep shapes (RandomElement, TLC -seed)
    "EB": (("{7}", 1), ("{7, 61, 1000, 2000, 3000}", 1), 13),      # switch-originated kinds built through the API (OFSwGen.tla)
}


COUNT = {"quick": 300, "thorough": 12000}


def cfg(family, tags, stride, phase, count=1, seed=1):
    return ("SPECIFICATION Spec\nCONSTANTS\n  Family = \"%s\"\n  Tags = %s\n  Stride = %d\n  Phase = %d\n  Count = %d\n  Seed = %d\n"
            % (family, tags, stride, phase, count, seed % 1000))


def run_families(ctx, prop, families=None, judge_parallel=6, sub=SUB, judge=JUDGE, transform=None, constants=None):
    recs, counts = [], {}
    if constants is None:
        constants = "  Prop = \"%s\"\n" % prop
    for fam in (families or [f for f in FAMILIES if f not in ("B", "T", "EB")]):
        tags, stride = FAMILIES[fam][0 if ctx.quick() else 1]
        emin = FAMILIES[fam][2]
        if fam == "EB":
            p, n = pipeline.gen_tlc(ctx, "OFSwGen", "SPECIFICATION Spec\nCONSTANTS\n  Family = \"EB\"\n  Tags = %s\n" % tags, "OFSwGen[EB]", fam,
                                    expect_min=emin, workers=8, xmx="8g")
        else:
            p, n = pipeline.gen_tlc(ctx, "OFGen", cfg(fam, tags, stride, ctx.seed % stride, COUNT[ctx.tier], ctx.seed), "OFGen[%s]" % fam, fam,
                                    expect_min=max(1, emin // (stride * 2)), workers=8, xmx="8g")
        if fam not in ("T", "EB"):
            bad = [r["id"] for r in vlib.read_ndjson(p) if r.get("specwalk") is False]
            if bad:
                raise vlib.Infra("OFWire.tla is inconsistent with itself: Walk rejects Enc(tree) for %s (%d scenarios)" % (bad[:3], len(bad)))
        if transform:
            rows = [x for x in (transform(r) for r in vlib.read_ndjson(p)) if x is not None]
            vlib.write_ndjson(p, rows)
            n = len(rows)
        counts[fam] = n
        tr, rs = pipeline.run_family(ctx, sub, p, judge, constants=constants, max_lines=4000 if fam != "B" else 2,
                                     judge_workers=2)
        recs += rs
    ctx.extra["families"] = counts
    ctx.extra["distinct_nontrivial"] = sum(counts.values())
    return recs


# packet-header kinds under the construction judge (C06, C13): PktGen.tla family -> (quick stride, thorough stride, expected minimum at stride 1)
PACKETS = {"VLAN": (1021, 251, 65536), "ETH": (1, 1, 40), "IP4": (1021, 251, 66000), "IP6": (89, 31, 1500), "FRAG": (509, 61, 16384), "TCP": (7, 1, 1024),
           "L4": (1, 1, 20), "IGMP": (1, 1, 80), "EXT": (1, 1, 100), "DL": (1, 1, 50), "DC": (1, 1, 40), "HX": (1, 1, 8)}


def _pkt_observe(r, seed):
    parts, top = list(r["rt"][:-1]), r["top"]
    watch = [o for p in parts for o in (["len", p], ["marshal", p])]
    rev = [o for p in reversed(parts) for o in (["marshal", p], ["len", p])]
    L, M = ["len", top], ["marshal", top]
    h = (len(r["ops"]) + 3 * len(parts) + seed) % 6
    obs = [watch + [L, M, L, M], [M, L, M, L] + watch, [L, L, M, M] + rev, rev + [M, M, L, L], [M] + watch + [L, M, L], [L] + rev + [M, L, M] + watch][h]
    if r["fam"] in ("DL", "DC"):      # Read-style codecs: a short read between two full ones
        k = max(i for i, o in enumerate(obs) if o == M)
        obs = obs[:k] + [["peek", top]] + obs[k:]
    out = {"k": "build", "id": r["id"], "fam": "PK-" + r["fam"], "top": top, "ops": r["ops"], "observe": obs, "kids": parts, "trees": r["trees"]}
    return out


def run_packets(ctx, prop, families=None):
    """Packet-header kinds (protocol package) built through the API, observed (size / encoding, repeatedly, in varying order) and judged by
    OFTrace.tla with the same predicates as the OpenFlow kinds; EncPkt of PktWire.tla is the grammar."""
    recs, counts = [], {}
    for fam, (qs, ts, emin) in PACKETS.items():
        if families and fam not in families:
            continue
        stride = qs if ctx.quick() else ts
        cfgtxt = "SPECIFICATION Spec\nCONSTANTS\n  Family = \"%s\"\n  Stride = %d\n  Phase = %d\n" % (fam, stride, ctx.seed % stride)
        p, n = pipeline.gen_tlc(ctx, "PktGen", cfgtxt, "PktGen[%s]" % fam, "PK-" + fam, expect_min=max(1, emin // (2 * stride)), workers=8, xmx="8g")
        rows = [_pkt_observe(r, ctx.seed) for r in vlib.read_ndjson(p)]
        vlib.write_ndjson(p, rows)
        counts["PK-" + fam] = len(rows)
        recs += pipeline.run_family(ctx, SUB, p, JUDGE, constants="  Prop = \"%s\"\n" % prop, max_lines=4000, judge_workers=2)[1]
    fams = dict(ctx.extra.get("families", {}))
    fams.update(counts)
    ctx.extra["families"] = fams
    ctx.extra["distinct_nontrivial"] = sum(fams.values())
    return recs


def settle(ctx, prop, recs):
    return pipeline.settle(ctx, SUB, JUDGE, "  Prop = \"%s\"\n" % prop, recs,
                           sig=lambda r: "%s|%s" % (r.get("fam", "?"), r.get("pred", "?")), max_report=12)

ALL = [f for f in FAMILIES if f not in ("B", "T", "EB")]     # includes R
FAMS = {"C01": ALL + ["B", "T"], "C02": ALL + ["T"], "C03": ALL + ["EB"], "C06": ALL + ["T", "EB"], "C13": ALL + ["T", "EB"]}
ASSUME = ["children are complete before they are added (bottom-up construction), as the eager length bookkeeping of AddField / AddAction presupposes",
          "values are position-tagged and boundary patterns, not all values of every field",
          "layouts are transcribed from the OpenFlow 1.3.5 / nicira-ext.h documents from memory; disagreements were triaged against the code (DESIGN.md section 5.3)"]
RULES = {
    "C01": "P01 on every generated controller-originated message: version byte 4, type code of the kind, header length field = bytes produced = Len(); ",
    "C02": "P02: the independent TLV walker of OFWire.tla (declared lengths, 8-byte alignment, zero padding, legal type/subtype codes, registry widths) consumes every generated message exactly, incl. actions nested in conntrack and messages nested in bundle-add; ",
    "C03": "P03: the bytes produced by the real encoder equal Enc(tree) of OFWire.tla byte for byte, for the top-level message and for every watched child encoded standalone; ",
    "C06": "P06: Len() = number of bytes produced for every observed object, and the standalone encodings of the watched children occur inside the container whole, disjoint and in order; ",
    "C13": "P13: every repeated Len()/MarshalBinary() of the same object (children, then the container twice, i.e. also via the enclosing container) returns the same answer; ",
}


def corpus_text(ctx):
    fam = ctx.extra.get("families", {})
    return ("scenarios generated by TLC from OFGen.tla/OFBuilder.tla by families (one dimension exhaustive, others minimal): " +
            ", ".join("%s=%d" % kv for kv in sorted(fam.items())) +
            " (A1/A2: every action kind / ordered pair in apply, write, bucket, packet-out, conntrack; M1/M2: every match-field "
            "constructor with/without mask / ordered pairs; MR: register windows; I: instruction sequences <= 3 x 5 commands; G: group-mod "
            "commands x types x buckets x actions; S: simple, multipart, TLV, bundle-control messages; W: bundle-add wrapping every kind; "
            "O: append/prepend orders; P: packet-out payload sizes; B: maximal shapes near 65535 bytes; L: learn specs x widths; N: all 64 NAT range combinations, note and id-list lengths; T: top-down histories where a container grows after it was attached; EB: switch-originated kinds built through the API), replayed through the real "
            "constructors and adders by the reflective interpreter and judged by TLC (OFTrace.tla).")
