"""Shared machinery of the /verif checks: scratch dirs, harness build, TLC runs,
PrintT-JSON parsing, sharded judging, known findings, evidence, verdicts.

Exit codes of a check: 0 property held on everything explored (KNOWN-FINDING lines
allowed), 1 confirmed VIOLATION, 2 the machinery could not reach a verdict."""
import glob
import json
import os
import re
import shutil
import subprocess
import sys
import tempfile
import time

VERIF = os.path.dirname(os.path.dirname(os.path.abspath(__file__)))
SPEC = os.path.join(VERIF, "spec")
HARNESS = os.path.join(VERIF, "harness")
REPO = os.environ.get("VERIF_REPO", "/repo")
OUTDIR = os.environ.get("VERIF_OUT") or os.path.dirname(os.path.dirname(os.path.abspath(__file__)))     # evidence/ and replays/ (experiments redirect them)
TLA_CP = "/opt/veriftools/tla/tla2tools.jar:/opt/veriftools/tla/CommunityModules-deps.jar"
GOENV = dict(GOFLAGS="-mod=mod", GOPROXY="off", GOSUMDB="off", GOTOOLCHAIN="local")
NCPU = os.cpu_count() or 4


class Infra(Exception):
    """The machinery failed; never a verdict about the code (exit 2)."""


def log(*a):
    print(*a, file=sys.stderr, flush=True)


class Ctx:
    def __init__(self, pid, tier, seed, keep=False):
        self.pid, self.tier, self.seed = pid, tier, seed
        self.t0 = time.time()
        self.scratch = tempfile.mkdtemp(prefix="verif-%s-" % pid)
        self.keep = keep
        self.states = 0          # TLC distinct states (generation + judging)
        self.transitions = 0     # TLC generated states
        self.judged = 0          # recorded lines judged by TLC
        self.rejects = []        # reject records (dicts)
        self.kf_seen = {}        # known-finding id -> count
        self.samples = []
        self.extra = {}
        self.tlc_runs = []
        self._harness = {}

    def quick(self):
        return self.tier == "quick"

    def cleanup(self):
        if not self.keep:
            shutil.rmtree(self.scratch, ignore_errors=True)

    def sub(self, name):
        d = os.path.join(self.scratch, name)
        os.makedirs(d, exist_ok=True)
        return d

    # ---------------- Go harness ----------------
    def harness(self, race=False):
        key = "race" if race else "plain"
        if key in self._harness:
            return self._harness[key]
        out = os.path.join(self.scratch, "harness-" + key)
        env = dict(os.environ, **GOENV)
        hdir = HARNESS
        if REPO != "/repo":
            # experiments only (tools/try_refactor_par.sh): build against a scratch copy of the library, from a scratch copy of the harness
            hdir = os.path.join(self.scratch, "harness-src")
            if not os.path.isdir(hdir):
                shutil.copytree(HARNESS, hdir)
                gm = os.path.join(hdir, "go.mod")
                open(gm, "w").write(open(os.path.join(HARNESS, "go.mod")).read().replace("=> /repo", "=> " + REPO))
        shutil.copyfile(os.path.join(REPO, "go.sum"), os.path.join(hdir, "go.sum"))
        cmd = ["go", "build", "-tags", "verif", "-o", out]
        if os.environ.get("VERIF_COVER"):       # statement coverage of the library under the corpus (tools/coverage.sh)
            cmd += ["-cover", "-covermode=atomic", "-coverpkg=github.com/contiv/libOpenflow/...,./..."]
        if race:
            cmd.append("-race")
        cmd.append("./cmd/harness")
        t = time.time()
        p = subprocess.run(cmd, cwd=hdir, env=env, capture_output=True, text=True)
        if p.returncode != 0:
            raise Infra("harness build failed (does /repo compile?):\n" + p.stdout + p.stderr)
        log("[%s] built harness (%s) in %.1fs" % (self.pid, key, time.time() - t))
        self._harness[key] = out
        return out

    def run_harness(self, args, race=False, timeout=1800, env=None, check=True):
        exe = self.harness(race)
        e = dict(os.environ)
        if env:
            e.update(env)
        if os.environ.get("VERIF_COVER"):
            e["GOCOVERDIR"] = os.environ["VERIF_COVER"]
        p = subprocess.run([exe] + args, capture_output=True, text=True, timeout=timeout, env=e)
        if check and p.returncode != 0:
            # a Go runtime abort ("fatal error: ...") is followed by a dump of every goroutine: keep its first line in the message
            head = next((ln[ln.index("fatal error:"):] for ln in p.stderr.splitlines() if "fatal error:" in ln), "")
            raise Infra("harness %s failed (%d): %s%s" % (args[:1], p.returncode, head + "\n" if head else "", p.stderr[-4000:]))
        return p

    # ---------------- TLC ----------------
    def tlc(self, module, cfg_text, workdir=None, workers=4, simulate=None, depth=None,
            seed=None, timeout=1800, xmx="4g", extra_files=(), deadlock=False, label=None,
            extra_args=()):
        """Run TLC on spec/<module>.tla with the given cfg text.  Returns a dict with
        'lines' (decoded PrintT JSON values), 'generated', 'distinct', 'out', 'ok',
        'violation' (name of a violated invariant/property or None)."""
        wd = workdir or tempfile.mkdtemp(prefix="tlc-", dir=self.scratch)
        for f in glob.glob(os.path.join(SPEC, "*.tla")):
            dst = os.path.join(wd, os.path.basename(f))
            if not os.path.exists(dst):
                os.symlink(f, dst)
        for f in extra_files:
            dst = os.path.join(wd, os.path.basename(f))
            if os.path.abspath(f) != os.path.abspath(dst):
                if os.path.lexists(dst):
                    os.unlink(dst)
                os.symlink(os.path.abspath(f), dst)
        cfg = os.path.join(wd, (label or module) + ".cfg")
        with open(cfg, "w") as fh:
            fh.write(cfg_text)
        meta = tempfile.mkdtemp(prefix="meta-", dir=wd)
        cmd = ["timeout", str(timeout), "java", "-XX:+UseParallelGC", "-Xmx" + xmx, "-Xss64m",
               "-cp", TLA_CP, "tlc2.TLC", "-config", cfg, "-metadir", meta,
               "-workers", str(workers), "-nowarning"]
        if not deadlock:
            cmd.append("-deadlock")   # -deadlock DISABLES deadlock checking
        if simulate is not None:
            cmd += ["-simulate", "num=%d" % simulate]
            if depth:
                cmd += ["-depth", str(depth)]
        if seed is not None:
            cmd += ["-seed", str(seed)]
        cmd += list(extra_args)
        cmd.append(module)
        t = time.time()
        outpath = os.path.join(wd, (label or module) + ".out")
        with open(outpath, "w") as fo:
            p = subprocess.run(cmd, cwd=wd, stdout=fo, stderr=subprocess.STDOUT)
        res = parse_tlc_output(outpath)
        res["rc"] = p.returncode
        res["wall"] = time.time() - t
        res["outpath"] = outpath
        shutil.rmtree(meta, ignore_errors=True)
        if p.returncode == 124:
            raise Infra("TLC timed out after %ds on %s" % (timeout, label or module))
        if res["error"] and not res["violation"]:
            raise Infra("TLC error on %s: %s\n(see %s)" % (label or module, res["error"], outpath))
        if not res["finished"] and not res["violation"] and simulate is None:
            raise Infra("TLC did not finish on %s (rc=%d); tail:\n%s" % (label or module, p.returncode, res["tail"]))
        self.states += res["distinct"]
        self.transitions += res["generated"]
        self.tlc_runs.append(dict(module=label or module, generated=res["generated"], distinct=res["distinct"],
                                  wall_s=round(res["wall"], 2), emitted=len(res["lines"])))
        log("[%s] TLC %s: %d generated / %d distinct, %d emitted lines, %.1fs" %
            (self.pid, label or module, res["generated"], res["distinct"], len(res["lines"]), res["wall"]))
        return res

    # ---------------- TLAPS ----------------
    def tlapm(self, module, timeout=900):
        """Check the proofs of spec/<module>.tla with the TLA+ proof system in a scratch copy; returns the number of obligations proved.
        A failed or unavailable prover is an infrastructure failure (exit 2), never a verdict about the code."""
        wd = tempfile.mkdtemp(prefix="tlaps-", dir=self.scratch)
        for f in os.listdir(SPEC):
            if f.endswith(".tla"):
                shutil.copy(os.path.join(SPEC, f), wd)
        t = time.time()
        try:
            p = subprocess.run(["tlapm", "--threads", "8", module + ".tla"], cwd=wd, capture_output=True, text=True, timeout=timeout)
        except (OSError, subprocess.TimeoutExpired) as e:
            raise Infra("tlapm on %s: %s" % (module, e))
        out = p.stdout + p.stderr
        m = re.search(r"All (\d+) obligations? proved", out)
        if p.returncode != 0 or not m:
            raise Infra("tlapm did not prove %s:\n%s" % (module, out[-3000:]))
        log("[%s] TLAPS %s: %s obligations proved, %.1fs" % (self.pid, module, m.group(1), time.time() - t))
        return int(m.group(1))

    # ---------------- evidence / verdict ----------------
    def sample(self, obj, cap=4):
        if len(self.samples) < cap:
            s = json.dumps(obj)
            if len(s) > 1500:
                s = s[:1500] + "...(truncated)"
                self.samples.append(s)
            else:
                self.samples.append(obj)


_STATS = re.compile(r"^(\d+) states generated, (\d+) distinct states found")
_SIMSTATS = re.compile(r"states checked: (\d+)|Progress: (\d+) states checked")


def parse_tlc_output(path):
    lines, generated, distinct = [], 0, 0
    finished, error, violation = False, None, None
    tail = []
    in_error = False
    with open(path, errors="replace") as fh:
        for ln in fh:
            ln = ln.rstrip("\n")
            if ln.startswith('"'):
                try:
                    v = json.loads(ln)
                    if isinstance(v, str) and v[:1] in "{[":
                        lines.append(json.loads(v))
                        continue
                except ValueError:
                    pass
            tail.append(ln)
            if len(tail) > 60:
                tail.pop(0)
            m = _STATS.match(ln)
            if m:
                generated, distinct = int(m.group(1)), int(m.group(2))
            elif "Model checking completed. No error has been found." in ln:
                finished = True
            elif ln.startswith("Error: Invariant ") and "is violated" in ln:
                violation = ln.split("Invariant ")[1].split(" is violated")[0]
            elif ln.startswith("Error: Temporal propert") or "Error: Action property" in ln:
                violation = violation or "temporal"
            elif ln.startswith("Error: Deadlock reached"):
                violation = violation or "deadlock"
            elif ln.startswith("Error:") and violation is None and error is None:
                error = ln
            elif "The number of states generated:" in ln:      # simulation summary
                try:
                    generated = int(ln.split(":")[1].strip().split()[0].replace(",", ""))
                except ValueError:
                    pass
            elif ln.startswith("Progress:") and "states checked" in ln:
                m2 = re.search(r"Progress: ([\d,]+) states checked", ln)
                if m2:
                    generated = max(generated, int(m2.group(1).replace(",", "")))
    if violation and error and error.startswith("Error: Invariant"):
        error = None
    return dict(lines=lines, generated=generated, distinct=max(distinct, 0), finished=finished,
                error=error, violation=violation, tail="\n".join(tail[-25:]))


def write_ndjson(path, objs):
    n = 0
    with open(path, "w") as fh:
        for o in objs:
            fh.write(json.dumps(o, separators=(",", ":")))
            fh.write("\n")
            n += 1
    return n


def read_ndjson(path):
    with open(path) as fh:
        return [json.loads(l) for l in fh if l.strip()]


def count_lines(path):
    n = 0
    with open(path, "rb") as fh:
        for _ in fh:
            n += 1
    return n


def shard_file(path, max_lines=60000, max_bytes=80 << 20):
    """Split an ndjson file into shards of bounded line count / size."""
    shards, cur, n, sz, idx = [], None, 0, 0, 0
    base = path + ".shard"
    with open(path, "rb") as fh:
        for ln in fh:
            if cur is None or n >= max_lines or sz >= max_bytes:
                if cur:
                    cur.close()
                idx += 1
                p = "%s%03d" % (base, idx)
                cur = open(p, "wb")
                shards.append(p)
                n = sz = 0
            cur.write(ln)
            n += 1
            sz += len(ln)
    if cur:
        cur.close()
    return shards


SAFE_MODULES = ("OFCodecTrace", "OFParseTrace")      # judges with a constant Safe (TRUE: predicates that apply Enc to a decoded projection are left out)


def judge(ctx, module, trace_path, constants="", workers=2, parallel=6, xmx="3g",
          max_lines=60000, timeout=1800, label=None):
    """Judge a recorded trace with spec/<module>.tla (Init over all lines, one Judge
    step per line).  Returns the list of printed records (rejects, known findings,
    notes), each tagged with the shard-relative line resolved to a global line."""
    from concurrent.futures import ThreadPoolExecutor
    total = count_lines(trace_path)
    if total == 0:
        raise Infra("empty trace for %s" % module)
    shards = shard_file(trace_path, max_lines=max_lines)
    offsets, off = [], 0
    for s in shards:
        offsets.append(off)
        off += count_lines(s)

    def one(i):
        wd = tempfile.mkdtemp(prefix="judge-", dir=ctx.scratch)
        tf = os.path.join(wd, "trace.ndjson")
        os.symlink(shards[i], tf)
        has_safe = module in SAFE_MODULES
        cfg = ("SPECIFICATION Spec\nCONSTANTS\n  TraceFile = \"trace.ndjson\"\n" + constants + ("  Safe = FALSE\n" if has_safe else "") + "\n")
        try:
            r = ctx.tlc(module, cfg, workdir=wd, workers=workers, xmx=xmx, timeout=timeout,
                        label="%s#%d" % (label or module, i + 1))
        except Infra as e:
            # The judge could not evaluate a predicate that reads the projection of a decoded value field by field (the value the code
            # returned does not have the shape of any value of its kind).  Judge the shard again with those predicates left out: what the
            # remaining predicates reject is a sound verdict; if they reject nothing there is no verdict (exit 2).
            if not has_safe or "TLC error" not in str(e):
                raise
            wd = tempfile.mkdtemp(prefix="judge-safe-", dir=ctx.scratch)
            os.symlink(shards[i], os.path.join(wd, "trace.ndjson"))
            r = ctx.tlc(module, cfg.replace("Safe = FALSE", "Safe = TRUE"), workdir=wd, workers=workers, xmx=xmx, timeout=timeout,
                        label="%s#%d[safe]" % (label or module, i + 1))
            if not any("reject" in rec for rec in r["lines"]):
                raise
            log("[%s] %s: a projection could not be read by the specification's encoder; verdict from the remaining predicates" % (ctx.pid, label or module))
        n = count_lines(shards[i])
        if r["distinct"] < 2 * n:
            raise Infra("judge %s shard %d visited %d states for %d lines (expected %d)" %
                        (module, i + 1, r["distinct"], n, 2 * n))
        for rec in r["lines"]:
            for k in ("reject", "kf", "note"):
                if k in rec and isinstance(rec[k], int) and k == "reject":
                    rec["line"] = offsets[i] + rec[k]
            if "l" in rec and isinstance(rec["l"], int):
                rec["line"] = offsets[i] + rec["l"]
        return r["lines"]

    recs = []
    with ThreadPoolExecutor(max_workers=parallel) as ex:
        for out in ex.map(one, range(len(shards))):
            recs.extend(out)
    ctx.judged += total
    for s in shards:
        os.unlink(s)
    return recs


def nth_line(path, n):
    with open(path) as fh:
        for i, ln in enumerate(fh, 1):
            if i == n:
                return json.loads(ln)
    return None


# ---------------- known findings ----------------
def load_known(pid):
    path = os.path.join(VERIF, "known_findings.jsonl")
    out = {}
    if os.path.exists(path):
        for ln in open(path):
            ln = ln.strip()
            if not ln or ln.startswith("#") or ln.startswith("fixed:"):
                continue
            try:
                k = json.loads(ln)
            except ValueError:
                continue
            if k.get("property") == pid and k.get("status", "open") == "open":
                out[k["id"]] = k
    return out


# ---------------- finishing ----------------
def finish(ctx, level, rule, violations, known_lines, assumptions, exhaustive=False, explanation=None):
    """Write evidence, print KNOWN-FINDING / VIOLATION lines, return the exit code."""
    wall = time.time() - ctx.t0
    cov = dict(states=max(ctx.states, 0), transitions=max(ctx.transitions, 0),
               traces_validated_against_impl=ctx.judged,
               evaluations=max(ctx.judged, 1),
               distinct_nontrivial=ctx.extra.pop("distinct_nontrivial", ctx.judged),
               rule=rule, samples=ctx.samples or ["(none)"], exhaustive=bool(exhaustive),
               tlc_runs=ctx.tlc_runs, known_findings_seen=sorted(ctx.kf_seen))
    if explanation:
        cov["explanation"] = explanation
    cov.update(ctx.extra)
    ev = dict(property_id=ctx.pid, tier=ctx.tier, seed=ctx.seed, level=level, coverage=cov,
              assumptions=assumptions, wall_s=round(wall, 2), violations=len(violations))
    os.makedirs(os.path.join(OUTDIR, "evidence"), exist_ok=True)
    with open(os.path.join(OUTDIR, "evidence", ctx.pid + ".json"), "w") as fh:
        json.dump(ev, fh, indent=1)
        fh.write("\n")
    for k in known_lines:
        print("KNOWN-FINDING: property=%s %s" % (ctx.pid, k))
    for v in violations:
        print("VIOLATION property=%s replay=%s" % (ctx.pid, v))
    sys.stdout.flush()
    log("[%s] tier=%s seed=%d judged=%d states=%d violations=%d known=%d wall=%.1fs" %
        (ctx.pid, ctx.tier, ctx.seed, ctx.judged, ctx.states, len(violations), len(known_lines), wall))
    return 1 if violations else 0


def save_replay(pid, name, obj):
    d = os.path.join(OUTDIR, "replays", pid)
    os.makedirs(d, exist_ok=True)
    p = os.path.join(d, name + ".json")
    with open(p, "w") as fh:
        json.dump(obj, fh)
        fh.write("\n")
    return p


# ---------------- race detector ----------------
def race_env(ctx, tag):
    """Environment for a -race harness run: reports go to files, the run continues."""
    d = ctx.sub("race-" + tag)
    return dict(GORACE="halt_on_error=0 exitcode=0 log_path=%s/r" % d), d


def race_reports(d):
    n, first = 0, None
    for f in sorted(glob.glob(os.path.join(d, "r.*"))):
        txt = open(f, errors="replace").read()
        k = txt.count("WARNING: DATA RACE")
        n += k
        if k and first is None:
            first = txt[:3000]
    return n, first


def patch_obs(trace_path, fn):
    """Rewrite a trace file, letting fn(line_dict) amend the observation (e.g. add race counts)."""
    rows = read_ndjson(trace_path)
    for r in rows:
        fn(r)
    write_ndjson(trace_path, rows)
