"""C15 - match-field registry: names map to the right class, number and width;
pack/unpack inverse; lookups independent (also concurrently)."""
import os

import pipeline
import vlib

SUB, JUDGE = "registry", "RegistryTrace"
FATAL = "fatal error: concurrent map"


def cfg(family, stride=1, cls=32768, low="<<11, 0, 4>>"):
    return ("SPECIFICATION Spec\nCONSTANTS\n  Family = \"%s\"\n  Stride = %d\n  ClassArg = %d\n  LowArg <- LowDef\n"
            % (family, stride, cls))


def run(ctx):
    recs = []
    q = ctx.quick()
    # names x mask x case, lookup/mutate/lookup histories
    p, nN = pipeline.gen_tlc(ctx, "RegistryGenMC", cfg("N"), "RegistryGen[N]", "N", expect_min=127 * 6, workers=2)
    recs += pipeline.run_family(ctx, SUB, p, JUDGE)[1]
    names = sorted({s["name"] for s in vlib.read_ndjson(p) if s["case"] != "asis"})
    # header words: low halves x classes
    classes = [32768] if q else [0, 1, 32768, 65535, 0x1234, 0x8001, 0x7fff, 0xfffe]
    nL = 0
    for c in classes:
        p, n = pipeline.gen_tlc(ctx, "RegistryGenMC", cfg("L", 1, c), "RegistryGen[L,%d]" % c, "L%d" % c, expect_min=65536)
        nL += n
        recs += pipeline.run_family(ctx, SUB, p, JUDGE)[1]
    p, nC = pipeline.gen_tlc(ctx, "RegistryGenMC", cfg("C", 1), "RegistryGen[C]", "C", expect_min=65536)
    recs += pipeline.run_family(ctx, SUB, p, JUDGE)[1]
    # oracle-free self-inverse sweep over header words (all 2^32 in thorough, strided in quick)
    stride = 257 if q else 1
    sp = os.path.join(ctx.scratch, "scen-sweep.ndjson")
    off = ctx.seed % stride
    count = (2 ** 32 - off + stride - 1) // stride
    vlib.write_ndjson(sp, [dict(id="sweep-1", k="sweep", stride=stride, offset=off, count=count)])
    recs += pipeline.run_family(ctx, "registry-sweep", sp, JUDGE)[1]
    # concurrent lookups + mutation of results under the race detector
    cp = os.path.join(ctx.scratch, "scen-conc.ndjson")
    gs = [2, 16] if q else [2, 4, 8, 16, 32, 64]
    iters = 20000 if q else 200000
    vlib.write_ndjson(cp, [dict(id="conc-%d" % g, k="conc", names=names + ["NXM_NX_REG16", ""], goroutines=g,
                                iters=iters, seed=ctx.seed) for g in gs])
    env, rdir = vlib.race_env(ctx, "c15")
    fatal = None
    try:
        tr = pipeline.record(ctx, "registry-conc", cp, race=True, env=env)
    except vlib.Infra as e:
        # the Go runtime's detector of unsynchronised map access aborts the process (not recoverable): the registry was written during
        # concurrent lookups.  Real-code behaviour, reported as a violation; any other harness death stays exit 2.
        if FATAL not in str(e):
            raise
        fatal, tr = str(e)[str(e).find(FATAL):][:1500], None
    nrace, first = vlib.race_reports(rdir)
    crecs = []
    if tr:
        vlib.patch_obs(tr, lambda r: r["obs"].__setitem__("races", nrace))
        crecs = vlib.judge(ctx, JUDGE, tr, workers=1, label="RegistryTrace:conc")
    if first:
        ctx.extra["race_report"] = first
    for r in crecs:
        r["_trace"], r["_scen"] = tr, cp
    ctx.extra.update(names=len(names), lookups=nN, low_halves=nL, classes=nC, swept_words=count,
                     conc_goroutines=gs, conc_iters=iters, distinct_nontrivial=nN + nL + nC + len(gs) + 1)
    viol, known = pipeline.settle(ctx, SUB, JUDGE, "", recs)
    if any("reject" in r for r in crecs):
        # a concurrent failure is schedule dependent: report it from this run's recorded line
        r = [x for x in crecs if "reject" in x][0]
        viol.append(vlib.save_replay(ctx.pid, "%s-conc" % ctx.tier, dict(
            property=ctx.pid, sub="registry-conc", judge=JUDGE, constants="", race=True,
            scenario=vlib.nth_line(tr, r["line"] if "line" in r else r["reject"]), judge_record={k: v for k, v in r.items() if not k.startswith("_")},
            race_report=first)))
    if fatal:
        viol.append(vlib.save_replay(ctx.pid, "%s-conc-fatal" % ctx.tier, dict(
            property=ctx.pid, sub="registry-conc", judge=JUDGE, constants="", race=True, scenario=vlib.nth_line(cp, 1),
            judge_record=dict(pred="the process survives concurrent lookups", runtime=fatal), race_report=first)))
    return vlib.finish(
        ctx, "model_checking",
        "TLC enumerates every name of Registry.tla (transcribed from OF 1.3.5 / OVS meta-flow.h) x mask x {upper, lower, mixed} "
        "case plus unknown names, each as a lookup / scribble-on-result / lookup-again / lookup-other-mask history; all 65 536 "
        "(field|mask, length) low halves for %d class value(s) and all 65 536 classes, with the specification's own word decoded "
        "by the real unpacker; the harness sweeps pack(unpack(w)) = w over %d words (stride %d) and runs concurrent lookups with "
        "mutation of results on %s goroutines under the race detector; every recorded line is judged by TLC."
        % (len(classes), count, stride, gs), viol, known,
        ["tun_metadataN are variable-length: class/number asserted, width not",
         "race freedom is decided by the Go race detector on stress-sampled schedules"],
        exhaustive=not q)


def replay(ctx, obj):
    if obj.get("sub") == "registry-conc":
        env, rdir = vlib.race_env(ctx, "replay")
        try:
            again, observed = pipeline.confirm(ctx, "registry-conc", obj["judge"], "", obj["scenario"], race=True, env=env)
        except vlib.Infra as e:
            if FATAL not in str(e):
                raise
            print("VIOLATION property=%s replay=<this file> (reproduced: the Go runtime aborted the process: concurrent map access)" % ctx.pid)
            return 1
        nrace, _ = vlib.race_reports(rdir)
        if again or nrace:
            print("VIOLATION property=%s replay=<this file> (reproduced: races=%d)" % (ctx.pid, nrace))
            return 1
        print("replay: not reproduced on this run (schedule dependent)")
        return 0
    return pipeline.replay_generic(ctx, obj)
