"""C16 - bit-range helpers: mask, offset and width agree for every range (complete)."""
import pipeline
import vlib

SUB, JUDGE = "bitrange", "BitRangeTrace"


def run(ctx):
    recs = []
    cfg = "SPECIFICATION Spec\nCONSTANTS\n  Family = \"%s\"\n"
    p, nR = pipeline.gen_tlc(ctx, "BitRangeGen", cfg % "R", "BitRangeGen[R]", "R", expect_min=528, workers=2)
    recs += pipeline.run_family(ctx, SUB, p, JUDGE)[1]
    p, nO = pipeline.gen_tlc(ctx, "BitRangeGen", cfg % "O", "BitRangeGen[O]", "O", expect_min=65536, workers=2)
    recs += pipeline.run_family(ctx, SUB, p, JUDGE)[1]
    ctx.extra.update(ranges=nR, ofs_width_pairs=nO, distinct_nontrivial=nR + nO)
    viol, known = pipeline.settle(ctx, SUB, JUDGE, "", recs)
    return vlib.finish(
        ctx, "model_checking",
        "complete enumeration by TLC of all 528 ranges 0<=first<=last<=31 and all 65 536 (offset<1024, 1<=width<=64) pairs; "
        "each executed on NXRange (both constructors), the ofs_nbits encode/decode helpers (decoding the specification's own "
        "word), NewRegMatchField's mask bytes and the conntrack zone range; judged by TLC against BitRange.tla, whose inverse/"
        "injectivity/mask facts TLC checks on the whole domain (ASSUME)", viol, known,
        ["unexported encode/decode helpers are observed through the build-tag-guarded hook openflow13/verif_hooks.go"],
        exhaustive=True)


def replay(ctx, obj):
    return pipeline.replay_generic(ctx, obj)
