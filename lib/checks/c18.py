"""C18 - conntrack state builder reflects the last call per flag (DESIGN 4/C18)."""
import pipeline
import vlib

SUB, JUDGE = "ctstate", "CTStateTrace"


def gen_cfg(family, maxlen):
    return ("SPECIFICATION Spec\nCONSTANTS\n  Family = \"%s\"\n  MaxLen = %d\n" % (family, maxlen)
            + ("INVARIANTS TypeOK LastCallWins WireShape\n" if family == "S" else "INVARIANTS TypeOK\n"))


def run(ctx):
    recs = []
    # T: complete state graph, every transition from every reachable abstract state
    p, nT = pipeline.gen_tlc(ctx, "CTStateGen", gen_cfg("T", 1), "CTStateGen[T]", "T", expect_min=104976)
    recs += pipeline.run_family(ctx, SUB, p, JUDGE)[1]
    # S: all call sequences up to length 3 (quick) / 4 (thorough) from the fresh builder
    L = 3 if ctx.quick() else 4
    p, nS = pipeline.gen_tlc(ctx, "CTStateGen", gen_cfg("S", L), "CTStateGen[S]", "S",
                             expect_min=sum(16 ** k for k in range(1, L + 1)))
    recs += pipeline.run_family(ctx, SUB, p, JUDGE)[1]
    # R: random long sequences (simulation), seeded
    num, depth = (300, 40) if ctx.quick() else (5000, 64)
    p, nR = pipeline.gen_tlc(ctx, "CTStateGen", gen_cfg("R", depth), "CTStateGen[R]", "R", simulate=num,
                             depth=depth + 2, workers=1, seed=ctx.seed, expect_min=num // 2)
    recs += pipeline.run_family(ctx, SUB, p, JUDGE)[1]
    ctx.extra.update(transitions_complete=nT, sequences=nS, random_long=nR, max_seq_len=L,
                     distinct_nontrivial=nT + nS + nR)
    viol, known = pipeline.settle(ctx, SUB, JUDGE, "", recs)
    return vlib.finish(
        ctx, "model_checking",
        "TLC enumerates the complete abstract state graph of the builder (3^8 states x 16 ops; one scenario per "
        "transition), every call sequence of length <= %d from the fresh builder, and %d random sequences of length "
        "%d (simulation, seeded); each is replayed on the real CTStates and the encoded NXM_NX_CT_STATE field is "
        "judged by TLC against Wire(ApplySeq(from, ops)). Every scenario is distinct by construction." % (L, nR, depth),
        viol, known,
        ["the 12 bytes of the encoded match field are the builder's entire concrete state (value and mask words)",
         "canonical call sequence (Set/Unset per touched flag, ascending) reaches the abstract source state"],
        exhaustive=True)


def replay(ctx, obj):
    return pipeline.replay_generic(ctx, obj)
