"""C02 - decided on the construction-scenario corpus (see ofcorpus.py, OFGen.tla, OFTrace.tla)."""
import ofcorpus
import pipeline
import vlib


def run(ctx):
    recs = ofcorpus.run_families(ctx, "C02", ofcorpus.FAMS.get("C02"))
    viol, known = ofcorpus.settle(ctx, "C02", recs)
    return vlib.finish(ctx, "model_checking", ofcorpus.RULES["C02"] + ofcorpus.corpus_text(ctx), viol, known,
                       ofcorpus.ASSUME, exhaustive=False)


def replay(ctx, obj):
    return pipeline.replay_generic(ctx, obj)
