"""C09 - packet headers round-trip; bit-fields stay in lane; payload demux is right."""
import pipeline
import vlib

SUB, JUDGE = "roundtrip", "OFCodecTrace"
# family -> (quick stride, thorough stride, expected minimum at stride 1)
FAMS = {"VLAN": (61, 1, 65536), "ETH": (1, 1, 40), "IP4": (67, 1, 66000), "IP6": (89, 7, 1500), "FRAG": (13, 1, 16384), "TCP": (1, 1, 1024),
        "L4": (1, 1, 20), "IGMP": (1, 1, 80), "EXT": (1, 1, 100), "DL": (1, 1, 50)}


def run(ctx):
    recs, counts = [], {}
    for fam, (qs, ts, emin) in FAMS.items():
        stride = qs if ctx.quick() else ts
        cfg = "SPECIFICATION Spec\nCONSTANTS\n  Family = \"%s\"\n  Stride = %d\n  Phase = %d\n" % (fam, stride, ctx.seed % stride)
        p, n = pipeline.gen_tlc(ctx, "PktGen", cfg, "PktGen[%s]" % fam, fam, expect_min=max(1, emin // (2 * stride)), workers=8, xmx="8g")
        if fam == "DL":
            # options after an explicit end option are padding to the decoder (it stops at END): encodable (C06), not a round-trip value
            def end_last(r):
                tags = [o["args"][0] for o in r["ops"] if o.get("ctor") == "DHCPNewOption"]
                return [255] not in tags[:-1]
            rows = [r for r in vlib.read_ndjson(p) if end_last(r)]
            vlib.write_ndjson(p, rows)
            n = len(rows)
        counts[fam] = n
        recs += pipeline.run_family(ctx, SUB, p, JUDGE, max_lines=20000)[1]
    ctx.extra.update(families=counts, distinct_nontrivial=sum(counts.values()))
    viol, known = pipeline.settle(ctx, SUB, JUDGE, "", recs, sig=lambda r: "%s|%s|%s" % (r.get("fam"), r.get("pred", "?"), (r.get("detail") or {}).get("type")),
                                  max_report=12)
    return vlib.finish(
        ctx, "model_checking",
        "TLC enumerates well-formed packet headers from PktGen.tla: every 802.1Q tag control word (65 536, strided in the quick tier but "
        "always including VLAN id 0 / 4095), ethertype demux with and without tag, IPv4 version x IHL (options filling the header), all "
        "DSCP/ECN, all 65 536 flags/fragment-offset words, protocol demux; IPv6 version / traffic class / flow labels, all 16 orders of "
        "hop-by-hop / routing / fragment chains x payload kinds x 0-3 options, all 16 384 fragment offset/M words; TCP offset x flags; "
        "ICMP / UDP / ARP; IGMP v1-v3 with all S/QRV and source / record counts {0,1,2,5}; DHCP with option lists; LLDP TLVs. Each is built on the real types, encoded, decoded, "
        "re-encoded; TLC judges bytes = EncPkt(tree) (PktWire.tla, from the RFCs), decoded projection = built projection, re-encoding, "
        "EncPkt(decoded) = bytes, payload decoder kind = Demux(), size = bytes consumed. Families: %s" % counts,
        viol, known,
        ["DHCP (option lists incl. pad options, hardware lengths 0/1/6/16) and the LLDP chassis / port / TTL TLVs are built through the API and "
         "round-tripped through their Read / Write codecs (family DL); extension headers up to HEL 255 (family EXT)",
         "a tag whose control word is 0x0000 cannot be expressed by the Go value (presence is inferred from the tag's contents) and is outside the generated domain"],
        exhaustive=not ctx.quick())


def replay(ctx, obj):
    return pipeline.replay_generic(ctx, obj)
