"""C12 - parsed messages own their memory: reusing the input buffer cannot change them."""
import pipeline
import swcorpus
import vlib


def run(ctx):
    recs = swcorpus.run(ctx, "C12", tags_thorough="{7, 61, 2000, 3000, 4000}")
    # frames the library decodes lossily (outside C04 / C05) but must own all the same
    p, n = swcorpus.gen(ctx, "PX", "{7, 61}")
    recs += pipeline.run_family(ctx, swcorpus.SUB, p, swcorpus.JUDGE, constants="  Prop = \"C12\"\n", max_lines=3000)[1]
    viol, known = swcorpus.settle(ctx, "C12", recs)
    return vlib.finish(
        ctx, "model_checking",
        "Ownership.parse/scribble/observe histories on specification-made frames (OFSwGen.tla: every switch-originated kind, packet-in "
        "carrying Ethernet / VLAN / IPv4 / IPv6 with hop-by-hop, routing and fragment headers / ARP / ICMP / UDP / raw payloads and every "
        "decodable match-field kind with and without mask, multipart replies with 0-5 records, vendor / TLV / bundle messages, and the "
        "controller-originated kinds incl. every action kind and bundle-add nesting): Parse(buf), snapshot (projection, re-encoding, size), "
        "then overwrite buf with four patterns (zeros, ones, complement, a shifted copy of another part of the frame) and snapshot again "
        "after each; TLC requires every later snapshot to equal the first. Families: %s" % ctx.extra.get("families"),
        viol, known, ["the same property is exercised end to end by the stream check C10 (recycled pool buffers, final re-observation)"],
        exhaustive=False)


def replay(ctx, obj):
    return pipeline.replay_generic(ctx, obj)
