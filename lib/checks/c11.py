"""C11 - outbound stream: every submitted message is written once, whole, in order."""
import os
import random

import pipeline
import vlib
from vlib import Infra

SUB, JUDGE = "stream-out", "StreamOutTrace"


def model(ctx):
    cfg = ("SPECIFICATION Spec\nCONSTANTS\n  Producers = {1, 2, 3}\n  PerProducer = %d\n  TwoWriters = %s\n  WriteFails = FALSE\n  AppShuts = FALSE\n"
           "INVARIANTS OnceOnly Submitted ProducerOrder\n%s")
    n = 3 if ctx.quick() else 4
    r = ctx.tlc("StreamOut", cfg % (n, "FALSE", "PROPERTIES AllWritten\n"), workers=4, label="StreamOut[1 writer]")
    if r["violation"]:
        raise Infra("StreamOut.tla violates %s" % r["violation"])
    r2 = ctx.tlc("StreamOut", cfg % (2, "TRUE", ""), workers=1, label="StreamOut[2 writers]")
    if r2["violation"] != "ProducerOrder":
        raise Infra("sensitivity: two writers were expected to violate ProducerOrder, got %r" % r2["violation"])
    r3 = ctx.tlc("StreamOut", cfg.replace("WriteFails = FALSE", "WriteFails = TRUE").replace("ProducerOrder", "ProducerOrder NothingAfterPartial") % (n, "FALSE", ""),
                 workers=4, label="StreamOut[write failure]")
    if r3["violation"]:
        raise Infra("StreamOut.tla with write failures violates %s" % r3["violation"])
    r4 = ctx.tlc("StreamOut", cfg.replace("AppShuts = FALSE", "AppShuts = TRUE").replace("ProducerOrder", "ProducerOrder NothingAfterPartial") % (n, "FALSE", ""),
                 workers=4, label="StreamOut[shutdown]")
    if r4["violation"]:
        raise Infra("StreamOut.tla with an application shutdown violates %s" % r4["violation"])
    ctx.extra["model"] = dict(shutdown_states=r4["distinct"], write_failure_states=r3["distinct"], states=r["distinct"], producers=3, per_producer=n, two_writers_refuted=True)


def run(ctx):
    q = ctx.quick()
    model(ctx)
    rnd = random.Random(ctx.seed * 31 + 5)
    scen = []
    sizes_sets = [[8, 12, 40, 3000, 16, 2048, 64, 2500], [8, 12, 16, 24, 13], [2048, 4096, 6000, 3000],
                  [8, 65535, 12, 65528, 32768, 61441, 100, 32767],      # the largest frames the 16-bit length field allows
                  [8, 60000, 12, 30000, 100, 2047, 2049]]
    plist = [1, 2, 8, 32] if q else [1, 2, 4, 8, 16, 32]
    for P in plist:
        for j, sizes in enumerate(sizes_sets if not q else sizes_sets[:4]):
            per = max(4, (120 if q else 400) // P)
            if max(sizes) > 10000:
                per = max(2, per // 4)
            scen.append(dict(id="out-p%d-s%d" % (P, j), k="out", producers=P, per=per, sizes=sizes,
                             writeDelayUs=rnd.choice([0, 0, 50, 300]), seed=ctx.seed * 100 + len(scen),
                             maxprocs=rnd.choice([0, 0, 2])))
    # a write that times out after the peer accepted part of a frame: what reaches the wire afterwards must still be whole frames
    for j, (P, fa) in enumerate([(1, 1500), (3, 700)] if q else [(1, 1500), (3, 700), (1, 5), (2, 3000), (8, 2211), (3, 64)]):
        scen.append(dict(id="out-fault-p%d-%d" % (P, fa), k="out", producers=P, per=12, sizes=[300, 403, 1000, 64, 8, 2049],
                         writeDelayUs=0, seed=ctx.seed * 100 + 50 + j, maxprocs=0, writeFaultAt=fa))
    # the application shuts the stream down in the middle of the traffic (slowly encoding messages widen the window): what reaches the
    # wire before the connection is closed is still whole frames in submission order
    for j, (P, sa) in enumerate([(1, 6), (2, 9)] if q else [(1, 6), (2, 9), (1, 3), (4, 30), (1, 14), (3, 7)]):
        scen.append(dict(id="out-shutdown-p%d-%d" % (P, sa), k="out", producers=P, per=40, sizes=[64, 300, 8, 1000], writeDelayUs=rnd.choice([0, 100]),
                         seed=ctx.seed * 100 + 70 + j, maxprocs=0, shutdownAfter=sa, slowEvery=2, slowUs=400))
    sp = os.path.join(ctx.scratch, "scen-out.ndjson")
    vlib.write_ndjson(sp, scen)
    env, rdir = vlib.race_env(ctx, "c11")
    tr = pipeline.record(ctx, SUB, sp, race=True, env=env, timeout=3000)
    nrace, first = vlib.race_reports(rdir)
    if first:
        ctx.extra["race_report"] = first

    def patch(r):
        evs = r["obs"].get("events") or []
        if evs and evs[-1].get("e") == "End":
            evs[-1]["races"] = nrace
    vlib.patch_obs(tr, patch)
    recs = vlib.judge(ctx, JUDGE, tr, workers=2, xmx="6g", max_lines=4, label=JUDGE, parallel=6)
    for r in recs:
        r["_trace"], r["_scen"] = tr, sp
    rows = vlib.read_ndjson(tr)
    ctx.extra.update(executions=len(scen), messages=sum(s["producers"] * s["per"] for s in scen),
                     wire_bytes=sum(r["obs"].get("total", 0) for r in rows),
                     overlapping_write_calls=sum(r["obs"].get("overlappingWrites", 0) for r in rows),
                     producer_counts=plist, distinct_nontrivial=len(scen))
    # a concurrent failure is schedule dependent: report it from this run's recorded line, after trying to reproduce it
    viol = []
    seen = set()
    for r in recs:
        if "reject" not in r or r["pred"] in seen:
            continue
        seen.add(r["pred"])
        line = vlib.nth_line(tr, r["line"])
        sc = {k: v for k, v in line.items() if k != "obs"}
        viol.append(vlib.save_replay(ctx.pid, "%s-%s" % (ctx.tier, sc["id"]), dict(
            property=ctx.pid, sub=SUB, judge=JUDGE, constants="", race=True, scenario=sc,
            judge_record={k: v for k, v in r.items() if not k.startswith("_")})))
    ctx.sample(dict(scenario=scen[0]))
    return vlib.finish(
        ctx, "model_checking",
        "TLC checks StreamOut.tla (producers, Outbound channel of capacity 1, one writer: receive / encode+write) for 3 producers x %d "
        "messages over all interleavings: each message on the wire at most once, only after submission, per-producer order, all "
        "written eventually; a two-writer variant is refuted. On the code, %s producer goroutines submit xid-tagged real messages "
        "(8 B - 65535 B, mixed kinds) through MessageStream.Outbound to a recording connection with optional write delay, under the race "
        "detector (incl. executions in which a Write accepts part of a frame and times out); the event log (submit begin/end, every Write) is validated by TLC against StreamOutTrace: the byte stream is re-framed "
        "by header length and every frame must equal a submitted message's encoding, once, after its submission, in its producer's order."
        % (ctx.extra["model"]["per_producer"], plist),
        viol, [], ["interleavings of the real goroutines are stress-sampled", "write errors are not injected (the writer calls log.Fatalf)"],
        exhaustive=False)


def replay(ctx, obj):
    for i in range(4):
        again, observed = pipeline.confirm(ctx, SUB, JUDGE, "", obj["scenario"], race=True)
        if again:
            print("VIOLATION property=%s replay=<this file> (reproduced: %s)" % (ctx.pid, again[0].get("pred")))
            return 1
    print("replay: not reproduced in 4 runs (schedule dependent)")
    return 0
