"""C10 - inbound stream: one intact message per complete frame, however bytes arrive."""
import os
import random

import pipeline
import vlib
from vlib import Infra

SUB, JUDGE = "stream-in", "StreamExtTrace"

NW = min(16, vlib.NCPU)
INVS = ("DeliveredIntact NoDupNoInvent NeverAhead AllDeliveredAtQuiescence ErrorAtMostOnce ErrorIffFailed PoolConservation")


def mc_cfg(pool, parsers, chunk, frames, failat, alias="FALSE", shutdown="TRUE", props=""):
    return ("CONSTANTS PoolSize = %d NParsers = %d MaxChunk = %d Alias = %s UserShutdown = %s\nFrames <- %s\nFailAt <- %s\n"
            "SPECIFICATION Spec\nINVARIANTS %s\n%sCHECK_DEADLOCK FALSE\n"
            % (pool, parsers, chunk, alias, shutdown, frames, failat, INVS, props))


def model(ctx):
    q = ctx.quick()
    runs = {}
    r = ctx.tlc("StreamMC", mc_cfg(2, 2, 3, "F3", "NoFail", shutdown="FALSE", props="PROPERTIES EventuallyAllDelivered\n"),
                workers=8, label="Stream[p2,f3,nofail,liveness]", xmx="8g")
    if r["violation"]:
        raise Infra("Stream.tla violates %s in the no-failure configuration" % r["violation"])
    runs["nofail_liveness"] = r["distinct"]
    r = ctx.tlc("StreamMC", mc_cfg(2, 2, 3, "F3", "AllPos", props="PROPERTIES FailureEventuallyPublished\n"),
                workers=8, label="Stream[p2,f3,fail-anywhere]", xmx="8g")
    if r["violation"]:
        raise Infra("Stream.tla violates %s with failures" % r["violation"])
    runs["fail_anywhere"] = r["distinct"]
    if not q:
        r = ctx.tlc("StreamMC", mc_cfg(3, 3, 99, "F4", "AllPos"), workers=NW, label="Stream[p3,f4,any-chunk,fail-anywhere]",
                    xmx="16g", timeout=3000)
        if r["violation"]:
            raise Infra("Stream.tla violates %s (pool 3)" % r["violation"])
        runs["pool3_f4"] = r["distinct"]
    # sensitivity: a parser that keeps a reference into the pooled buffer must be refuted
    r = ctx.tlc("StreamMC", mc_cfg(2, 2, 3, "F3", "NoFail", alias="TRUE", shutdown="FALSE"), workers=1,
                label="Stream[alias]", xmx="4g")
    if r["violation"] != "DeliveredIntact":
        raise Infra("sensitivity: the aliasing model was expected to violate DeliveredIntact, got %r" % r["violation"])
    runs["alias_refuted"] = True
    # refinement Stream => StreamExt, machine-checked: the events the rig logs for each action of Stream are fed to StreamExt's Step
    # (the judge of the recorded executions) along every behaviour of Stream; StreamExt must accept all of them
    rcfg = ("CONSTANTS PoolSize = %d NParsers = %d MaxChunk = %d Alias = %s UserShutdown = %s\nFrames <- %s\nFailAt <- %s\n"
            "INIT RInit\nNEXT RNext\nINVARIANTS ExtAccepts FinalAccepts EndAccepts ShutdownSilent\nCHECK_DEADLOCK FALSE\n")
    for label, args in ((("p2,f3,fail-anywhere,shutdown"), (2, 2, 3, "FALSE", "TRUE", "F3", "AllPos")),
                        (("p2,f3dup,fail-anywhere"), (2, 2, 3, "FALSE", "FALSE", "F3dup", "AllPos"))) + \
            (() if q else ((("p3,f3,any-chunk,fail-anywhere,shutdown"), (3, 3, 99, "FALSE", "TRUE", "F3", "AllPos")),)):
        r = ctx.tlc("StreamRefineMC", rcfg % args, workers=NW, label="StreamRefine[%s]" % label, xmx="12g", timeout=3000)
        if r["violation"]:
            raise Infra("refinement Stream => StreamExt fails (%s): %s" % (label, r["violation"]))
        runs["refine " + label] = r["distinct"]
    r = ctx.tlc("StreamRefineMC", rcfg % (2, 2, 3, "TRUE", "FALSE", "F3", "NoFail"), workers=1, label="StreamRefine[alias]", xmx="4g")
    if r["violation"] not in ("FinalAccepts", "ExtAccepts"):
        raise Infra("sensitivity: StreamExt was expected to reject the aliasing model, got %r" % r["violation"])
    runs["refine_alias_refuted"] = True
    ctx.extra["model"] = runs



SIZES = [8, 12, 13, 16, 20, 64, 255, 256, 257, 260, 300, 511, 512, 513, 1000, 2047, 2048, 2049, 2052, 3000, 4096, 6000]
KINDS = ["error", "error", "echo", "flowmod", "hello", "barrier", "packetin", "error", "packetin"]


def rand_frames(rnd, n, big=True):
    out = []
    for i in range(n):
        k = rnd.choice(KINDS)
        if big and rnd.random() < 0.12:
            sz = rnd.choice(SIZES)
            k = "error" if sz >= 12 else "echo"
        else:
            sz = rnd.choice([8, 12, 13, 16, 20, 24, 40, 64, 100])
        if sz == 8:
            k = rnd.choice(["echo", "barrier"])
        if k == "packetin":
            sz = rnd.choice([100, 120, 200, 600, 1400])
        out.append([k, sz])
    return out


def gen_random(ctx, n):
    rnd = random.Random(ctx.seed * 7919 + 13)
    scen = []
    for i in range(n):
        style = ["free", "bytewise", "kchunk", "prefix", "sched", "fail", "partial", "shutdown", "sched", "jumbo", "eof"][i % 11]
        s = dict(id="rnd-%d-%s" % (i + 1, style), k="in", seed=ctx.seed * 1000 + i, sched=[], style=style)
        nf = rnd.choice([60, 120, 160])
        s["frames"] = rand_frames(rnd, nf)
        if style == "bytewise":
            s["frames"] = rand_frames(rnd, 70, big=False)
            s["chunks"] = [1] * 4000
        elif style == "kchunk":
            s["chunks"] = [rnd.choice([2, 3, 5, 7])] * 20000
        elif style == "prefix":
            # large frames, the stream cut inside every length prefix (after 1, 2 or 3 bytes of each frame)
            s["frames"] = [["error", rnd.choice([256, 257, 300, 512, 513, 1024, 2049, 260])] for _ in range(80)]
            chunks, carry = [], 0
            for j, f in enumerate(s["frames"]):
                cut = 1 + (j + i) % 3
                chunks.append(carry + cut)
                carry = f[1] - cut
            s["chunks"] = chunks
        elif style == "jumbo":
            # more frames larger than a pooled buffer's initial capacity (2048) than the pool has buffers (50): every buffer grows,
            # is recycled and must come back to the pool (PoolConservation of Stream.tla, observed as delivery of every later frame)
            s["frames"] = [["error", rnd.choice([2049, 2052, 3000, 4096, 6000])] if j % 2 == 0 else [rnd.choice(["echo", "barrier", "hello"]), 8] for j in range(140)]
            s["frames"] = [f if f[0] != "hello" else ["hello", 16] for f in s["frames"]]
            s["chunks"] = [rnd.randint(1, 3000) for _ in range(rnd.randint(0, 300))]
        elif style == "eof":
            # the peer closes its end exactly on a frame boundary (after the last complete frame, or before any byte): a failure like
            # any other, published once on Error
            s["frames"] = rand_frames(rnd, rnd.choice([0, 1, 5, 40]), big=False)
            s["chunks"] = [rnd.randint(1, 200) for _ in range(100)]
            s["failAtEnd"] = True
            s["failEOF"] = True
        elif style == "free":
            s["chunks"] = [rnd.randint(1, 1500) for _ in range(rnd.randint(0, 300))]
            s["maxprocs"] = rnd.choice([0, 1, 2, 4])
        elif style == "sched":
            cmds = []
            for _ in range(rnd.randint(200, 900)):
                x = rnd.random()
                if x < 0.35:
                    cmds.append(["F", rnd.choice([1, 2, 3, 4, 5, 9, 30, 100, 700, 2048])])
                elif x < 0.65:
                    cmds.append(["P", rnd.randint(0, 30)])
                elif x < 0.95:
                    cmds.append(["R"])
                else:
                    cmds.append(["Z", rnd.randint(50, 500)])
            s["sched"] = cmds
        elif style == "fail":
            cmds = [["F", rnd.randint(1, 60)] for _ in range(rnd.randint(1, 80))]
            cmds += [["R"]] * rnd.randint(0, 10)
            cmds.append(["X"])
            s["sched"] = cmds
            s["gate"] = False
        elif style == "partial":
            s["partial"] = rnd.randint(1, 60)
            s["failAtEnd"] = rnd.random() < 0.5
            s["chunks"] = [rnd.randint(1, 90) for _ in range(400)]
        elif style == "shutdown":
            cmds = [["F", rnd.randint(1, 200)] for _ in range(rnd.randint(1, 40))]
            cmds.append(["S"])
            s["sched"] = cmds
            s["gate"] = False
        scen.append(s)
    p = os.path.join(ctx.scratch, "scen-rnd.ndjson")
    vlib.write_ndjson(p, scen)
    return p, len(scen)


def sim_cfg(nf, pause, fail, shutdown):
    return ("CONSTANTS PoolSize = 50 NParsers = 25 MaxChunk = 40 Alias = FALSE UserShutdown = %s NF = %d PauseEvery = %d\n"
            "Frames <- SimFrames\nFailAt <- %s\nINIT SInit\nNEXT SNext\nINVARIANT SimInv\nCHECK_DEADLOCK FALSE\n"
            % (shutdown, nf, pause, fail))


def run(ctx):
    q = ctx.quick()
    model(ctx)
    recs = []
    # (a) specification -> code: coarse schedules simulated from Stream.tla with the real constants
    nsim = 0
    for label, cfg, num in (("nofail", sim_cfg(120, 40, "NoFailSim", "FALSE"), 2 if q else 20),
                            ("fail", sim_cfg(90, 0, "SimFail", "FALSE"), 2 if q else 12),
                            ("shutdown", sim_cfg(90, 30, "NoFailSim", "TRUE"), 1 if q else 6)):
        p, n = pipeline.gen_tlc(ctx, "StreamSim", cfg, "StreamSim[%s]" % label, "sim-" + label, simulate=num, depth=14000,
                                workers=4, seed=ctx.seed, expect_min=1, dedup=True, cap=40 if not q else 8)
        for s in vlib.read_ndjson(p):
            pass
        rows = vlib.read_ndjson(p)
        for i, s in enumerate(rows):
            s["seed"] = ctx.seed * 100 + i
            s["sched"] = [list(c) for c in s["sched"]]
        vlib.write_ndjson(p, rows)
        nsim += n
        recs += run_rig(ctx, p, race=False)
    # (b) code -> specification: free-running / randomly scheduled executions under the race detector
    p, nrnd = gen_random(ctx, 22 if q else 330)
    recs += run_rig(ctx, p, race=True)
    ctx.extra.update(simulated_schedules=nsim, random_executions=nrnd, distinct_nontrivial=nsim + nrnd)
    viol, known = pipeline.settle(ctx, SUB, JUDGE, "", recs, sig=lambda r: r.get("pred", "?"))
    return vlib.finish(
        ctx, "model_checking",
        "TLC checks Stream.tla (one action per channel operation of util/stream.go) exhaustively for pool 2 / 2 parsers / 3 frames / "
        "chunks <= 3 without failure (7 invariants + liveness) and with a failure after every byte and application shutdown%s; the "
        "aliasing variant is refuted. The refinement Stream => StreamExt (the event-level specification the recorded executions are "
        "validated against) is machine-checked: StreamRefine.tla feeds the events of every action to StreamExt's Step along every "
        "behaviour and TLC checks that all are accepted, incl. the final re-observations and End in terminal states; with aliasing "
        "StreamExt rejects. Schedules simulated from the same specification with the real constants (pool 50, 25 parsers, "
        "90-120 frames, chunks <= 40 bytes incl. splits inside the length prefix, slow-consumer phases, failures, shutdown) are imposed "
        "on the real MessageStream through a scripted net.Conn, a gating Parser and a token-driven consumer; randomly scheduled and "
        "free-running executions (frames 8 B - 6 KiB, byte-wise / k-byte / prefix-splitting chunkings, trailing partial frames, more jumbo frames than pool buffers, "
        "failures) run under the race detector. Every recorded event log is validated by TLC against StreamExt.tla, one "
        "specification step per event, incl. the final re-observation of every delivered message."
        % ("" if q else ", and for pool 3 / 3 parsers / 4 frames (one duplicated) / any chunking / failure anywhere"),
        viol, known,
        ["the rig controls the goroutines only at Read, Parse and Recv; orderings of send / reset / return-buffer are explored by TLC in the model and sampled on the code",
         "quiescence is observed with an 8 s idle bound"],
        exhaustive=False)


def run_rig(ctx, scen_path, race):
    env, rdir = (vlib.race_env(ctx, "c10-" + os.path.basename(scen_path)) if race else (None, None))
    tr = pipeline.record(ctx, SUB, scen_path, race=race, env=env, timeout=3000)
    if race:
        nrace, first = vlib.race_reports(rdir)
        if first:
            ctx.extra["race_report"] = first

        def patch(r):
            evs = r["obs"].get("events") or []
            if evs and evs[-1].get("e") == "End":
                evs[-1]["races"] = nrace
        vlib.patch_obs(tr, patch)
    recs = vlib.judge(ctx, JUDGE, tr, workers=2, xmx="6g", max_lines=12, label=JUDGE + ":" + os.path.basename(scen_path),
                      parallel=6)
    for r in recs:
        r["_trace"], r["_scen"] = tr, scen_path
    div = sum(x["obs"].get("diverged", 0) for x in vlib.read_ndjson(tr))
    ctx.extra["schedule_divergences"] = ctx.extra.get("schedule_divergences", 0) + div
    return recs


def replay(ctx, obj):
    # schedule dependent: run the stored scenario several times
    for i in range(4):
        again, observed = pipeline.confirm(ctx, SUB, JUDGE, "", obj["scenario"], race=obj.get("race", False))
        if again:
            print("VIOLATION property=%s replay=<this file> (reproduced: %s)" % (ctx.pid, again[0].get("pred")))
            return 1
    print("replay: not reproduced in 4 runs (schedule dependent)")
    return 0
