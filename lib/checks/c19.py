"""C19 - base encoder/decoder primitives are symmetric and alignment-exact."""
import pipeline
import vlib

SUB, JUDGE = "ofbase", "OfBaseTrace"


def cfg(family, depth, n=40, inv=""):
    return ("SPECIFICATION Spec\nCONSTANTS\n  Family = \"%s\"\n  Depth = %d\n  N = %d\n%s" % (family, depth, n, inv))


def run(ctx):
    recs = []
    dE, dD = (3, 4) if ctx.quick() else (4, 5)
    p, nE = pipeline.gen_tlc(ctx, "OfBaseGen", cfg("E", dE), "OfBaseGen[E]", "E", expect_min=14 ** dE)
    recs += pipeline.run_family(ctx, SUB, p, JUDGE)[1]
    p, nD = pipeline.gen_tlc(ctx, "OfBaseGen", cfg("D", dD, 40, "INVARIANTS AlignInv FramesNested\n"),
                             "OfBaseGen[D]", "D", expect_min=1000)
    recs += pipeline.run_family(ctx, SUB, p, JUDGE)[1]
    p, nH = pipeline.gen_tlc(ctx, "OfBaseGen", cfg("H", 1), "OfBaseGen[H]", "H", expect_min=50, workers=1)
    recs += pipeline.run_family(ctx, SUB, p, JUDGE)[1]
    # random deeper sequences (simulation): prefixes are emitted at every step
    num, depth = (40, 12) if ctx.quick() else (600, 16)
    p, nRE = pipeline.gen_tlc(ctx, "OfBaseGen", cfg("E", depth), "OfBaseGen[E-sim]", "RE", simulate=num,
                              depth=depth + 1, workers=1, seed=ctx.seed, expect_min=num, dedup=True, cap=20000)
    recs += pipeline.run_family(ctx, SUB, p, JUDGE)[1]
    p, nRD = pipeline.gen_tlc(ctx, "OfBaseGen", cfg("D", depth, 96), "OfBaseGen[D-sim]", "RD", simulate=num,
                              depth=depth + 1, workers=1, seed=ctx.seed, expect_min=num, dedup=True, cap=20000)
    recs += pipeline.run_family(ctx, SUB, p, JUDGE)[1]
    ctx.extra.update(enc_sequences=nE, dec_sequences=nD, header_inputs=nH, random_enc=nRE, random_dec=nRD,
                     depth_enc=dE, depth_dec=dD, distinct_nontrivial=nE + nD + nH + nRE + nRD)
    viol, known = pipeline.settle(ctx, SUB, JUDGE, "", recs)
    return vlib.finish(
        ctx, "model_checking",
        "TLC enumerates every sequence of typed/raw writes and alignment skips to depth %d (15 operations per step: 5 widths x "
        "{position-tagged, all-ones}, raw 0/1/3 bytes, PutChar, align), every enabled sequence of decoder operations (skip 1/3/5, align, "
        "slice len 4/9/12 rewind 0/2, reads 1/2/4, pop) to depth %d over a 40-byte message, header decoding for every input length "
        "0..16 at offsets 0..3, plus seeded simulated sequences of depth %d; each is executed on ofbase.Encoder/Decoder and every "
        "returned value, offset, base offset, remaining length and unread rest (Bytes) is judged by TLC against OfBase.tla. Scenarios are distinct by "
        "construction (distinct histories)." % (dE, dD, depth),
        viol, known, ["decoder operations are generated only where the specification enables them (in-bounds)"],
        exhaustive=True)


def replay(ctx, obj):
    return pipeline.replay_generic(ctx, obj)
