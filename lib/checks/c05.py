"""C05 - decoding an encoding gives back the same value (library round trip)."""
import ofcorpus
import pipeline
import swcorpus
import vlib

SUB, JUDGE = "roundtrip", "OFCodecTrace"
JUNK = [0, 0, 0, 16, 0, 0, 0, 1, 255, 255, 0, 0, 0, 0, 0, 0]      # a sibling follows every decoded element


def well_formed(r):
    """A note action carries no length of its own: its padding is part of the note, so only notes that fill the action
    (length = 6 mod 8) can round-trip; the NXM_OF_ARP_SPA/TPA and ACTSET_OUTPUT match fields have no decoder (not two-way)."""
    for op in r["ops"]:
        if op.get("op") == "set" and op.get("f") == "Note" and len(op["val"]) % 8 != 6:
            return False
        if op.get("ctor") in ("NewNxARPSpaMatchField", "NewNxARPTpaMatchField", "NewActsetOutputField"):
            return False
        if op.get("op") == "set" and op.get("f") == "HWAddr" and len(op["val"]) != 6:
            return False      # a port-mod whose address is not 6 bytes is encodable (cut / zero-filled) but is not the value that comes back
        if op.get("ctor") == "NewMatchFieldU64" and op["args"][0] in ("NXM_NX_TUN_ID",):     # registered, but without a decoder
            return False
    return True


def transform(r):
    if not well_formed(r):
        return None
    r["rt"] = list(r.get("kids") or []) + [r["top"]]
    r["junk"] = JUNK
    for k in ("observe", "trees"):
        r.pop(k, None)
    return r


def run(ctx):
    fams = [f for f in ofcorpus.FAMILIES if f not in ("B", "T")]     # includes EB
    recs = ofcorpus.run_families(ctx, "C05", fams, sub=SUB, judge=JUDGE, transform=transform, constants="")
    fam1 = dict(ctx.extra.get("families", {}))
    # switch-originated kinds: decode the specification's frame through Parse, re-encode (OFParseTrace, predicate group C05)
    srecs = swcorpus.run(ctx, "C05")
    fam1.update({"sw-" + k: v for k, v in ctx.extra.get("families", {}).items()})
    ctx.extra["families"] = fam1
    ctx.extra["distinct_nontrivial"] = sum(fam1.values())
    sviol, sknown = swcorpus.settle(ctx, "C05", srecs)
    viol, known = pipeline.settle(ctx, SUB, JUDGE, "", recs, sig=lambda r: "%s|%s|%s" % (r.get("pred", "?"), (r.get("detail") or {}).get("type"), (r.get("detail") or {}).get("where")),
                                  max_report=12)
    viol, known = viol + sviol, known + [k for k in sknown if k not in known]
    return vlib.finish(
        ctx, "model_checking",
        "Four-phase machine built -> encoded -> decoded (with a sibling following) -> re-encoded executed on the real types for every "
        "watched child (through DecodeAction / DecodeInstr / the kind's own UnmarshalBinary) and every top-level message (through Parse) "
        "of the construction corpus: " + ofcorpus.corpus_text(ctx) + " TLC judges (OFCodecTrace.tla): decoder accepts, same kind, "
        "projection of the decoded value = projection of the built value, re-encoding = original bytes, the decoded projection read by "
        "the specification's own encoder Enc() = original bytes, decoded size = own bytes.",
        viol, known,
        ["note actions carry no length of their own: only notes of length 6 mod 8 are in the round-trip domain",
         "NXM_OF_ARP_SPA/TPA and ACTSET_OUTPUT match fields have no decoder and are excluded (not two-way kinds)",
         "switch-originated kinds (stats records, packet-in, features reply, port status, ...) are taken from the OFSwGen.tla corpus: "
         "specification-made frame -> Parse -> re-encode must reproduce the frame"], exhaustive=False)


def replay(ctx, obj):
    return pipeline.replay_generic(ctx, obj)
