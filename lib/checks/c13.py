"""C13 - decided on the construction-scenario corpus (see ofcorpus.py, OFGen.tla, OFTrace.tla)."""
import ofcorpus
import pipeline
import vlib


def run(ctx):
    recs = ofcorpus.run_families(ctx, "C13", ofcorpus.FAMS.get("C13"))
    recs += ofcorpus.run_packets(ctx, "C13")
    viol, known = ofcorpus.settle(ctx, "C13", recs)
    return vlib.finish(ctx, "model_checking", ofcorpus.RULES["C13"] + ofcorpus.corpus_text(ctx), viol, known,
                       ofcorpus.ASSUME, exhaustive=False)


def replay(ctx, obj):
    return pipeline.replay_generic(ctx, obj)
