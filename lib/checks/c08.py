"""C08 - packet-header decoders are total on arbitrary packet bytes."""
import pipeline
import totality
import vlib


def run(ctx):
    q = ctx.quick()
    cfg = "SPECIFICATION Spec\nCONSTANTS\n  Family = \"BASE\"\n  Stride = 1\n  Phase = 0\n"
    p, n = pipeline.gen_tlc(ctx, "PktGen", cfg, "PktGen[BASE]", "BASE", expect_min=40, workers=4)
    base = []
    for r in vlib.read_ndjson(p):
        base.append(dict(id=r["id"], entry=r["entry"], kind=r["kind"], frame=r["frame"]))
        if r["entry"] == "Ethernet":       # a jumbo-sized variant: the same header in front of a 9000-byte frame
            base.append(dict(id=r["id"] + "-jumbo", entry="Ethernet", kind="Ethernet-jumbo", frame=r["frame"] + [i % 251 for i in range(9000 - len(r["frame"]))]))
            # and one longer than any 16-bit length field can express
            base.append(dict(id=r["id"] + "-overlong", entry="Ethernet", kind="Ethernet-overlong", frame=r["frame"] + [i % 251 for i in range(70000 - len(r["frame"]))]))
    if not q:
        # more base frames: the well-formed headers of the C09 generator families (every demux path, IPv6 chain order, IGMP count)
        for fam, stride in (("ETH", 1), ("L4", 1), ("IGMP", 1), ("IP6", 7), ("IP4", 997), ("TCP", 37)):
            cfg2 = "SPECIFICATION Spec\nCONSTANTS\n  Family = \"%s\"\n  Stride = %d\n  Phase = %d\n" % (fam, stride, ctx.seed % stride)
            p2, _ = pipeline.gen_tlc(ctx, "PktGen", cfg2, "PktGen[%s]" % fam, "b" + fam, expect_min=5, workers=8, xmx="8g")
            rows = vlib.read_ndjson(p2)
            step = max(1, len(rows) // 400)
            for r in rows[::step]:
                if len(r["frame"]) <= 800:
                    base.append(dict(id=r["id"], entry=r["entry"], kind=r["kind"], frame=r["frame"]))
    sp, nb, nm = totality.mutate(ctx, [b for b in base if len(b["frame"]) < 2000], "pkt", depth2=not q, maxlen=2000)
    tr, recs = totality.run(ctx, sp, "pkt")
    # jumbo frames: mutations of the header region only (the tail is payload)
    jumbo = [b for b in base if len(b["frame"]) >= 2000]
    if jumbo and not q:
        heads = [dict(b, frame=b["frame"][:120]) for b in jumbo]
        sj, _, _ = totality.mutate(ctx, heads, "jumbo", depth2=False, maxlen=200)
        rows = vlib.read_ndjson(sj)
        full = {b["id"]: b["frame"] for b in jumbo}
        for r in rows:
            r["muts"] = [m for m in r["muts"] if m[0] != "t" and m[0] != "x"]
            r["frame"] = full[r["id"]]
        vlib.write_ndjson(sj, rows)
        nm += sum(len(r["muts"]) + 1 for r in rows)
        recs += totality.run(ctx, sj, "jumbo")[1]
    ctx.extra.update(base_frames=nb, mutants=nm, entries=sorted({b["entry"] for b in base}), distinct_nontrivial=nm)
    ctx.judged = nm
    viol, known = totality.settle(ctx, recs, lambda entry, kind, f: None)
    return vlib.finish(
        ctx, "model_checking",
        "For every packet-header decoder entry point (%s) PktGen.tla writes well-formed base frames with the specification's encoder "
        "(EncPkt of PktWire.tla) and OFMutate.tla lists every truncation point, every byte position x 8-bit boundary values (so IHL, HEL, "
        "option length, hardware length at 0, 1, max, wrap-around), every 16-bit position x length-like boundary values (source / group / "
        "record counts at 0, 1, len+-1, 0x7fff, 0xffff), 32-bit fills, extensions%s; %d mutants over %d base frames%s are run in a watched "
        "child process (CPU budget 2 s confirmed alone at 4 s, heap cap 1.5 GB); TLC judges the acceptor: every mutant gives a value or an "
        "error, allocation linear in the input."
        % (", ".join(sorted({b["entry"] for b in base})), "" if q else " and pairs of length-like fields", nm, nb,
           "" if q else " incl. 9000-byte jumbo frames"),
        viol, known,
        ["decoders are also reached through packet-in inside Parse by the C07 corpus",
         "the LLDP container type has no decoder of its own apart from its three TLVs"], exhaustive=False)


def replay(ctx, obj):
    return totality.replay(ctx, obj)
