"""C07 - the OpenFlow parser is total: any bytes give a message or an error."""
import swcorpus
import totality
import vlib


def run(ctx):
    q = ctx.quick()
    base = []
    for fam in swcorpus.FAMS:
        p, n = swcorpus.gen(ctx, fam, "{7}" if q else "{7, 2000, 61}")
        for r in vlib.read_ndjson(p):
            base.append(dict(id=r["id"], entry="Parse", kind=r["kind"], frame=r["frame"]))
    if q:
        # every kind stays represented: keep the first frame of each (family, kind) and every third of the others
        seen, keep = set(), []
        for i, b in enumerate(base):
            k = (b["id"].split("-")[0], b["kind"])
            if k not in seen or i % 3 == ctx.seed % 3 or len(b["frame"]) > 300:      # the few long frames (large option areas) always stay
                keep.append(b)
            else:
                keep.append(dict(b, lite=True))      # thinned out: only zero / wrap-around values in the 16-bit positions
            seen.add(k)
        base = keep
    # the largest frames the 16-bit length field allows; mutations confined to the first / last bytes
    p, n = swcorpus.gen(ctx, "BIG", "{7}")
    for r in vlib.read_ndjson(p):
        if q and r["kind"] not in ("flowstats", "overlong", "hello", "flowmod"):
            continue
        base.append(dict(id=r["id"], entry="Parse", kind=r["kind"], frame=r["frame"], win=[24, 64] if q else r["win"], d2=(r["kind"] == "overlong")))
    sp, nb, nm = totality.mutate(ctx, base, "of", depth2=not q, maxlen=480 if q else 2000)
    tr, recs = totality.run(ctx, sp, "of")
    ctx.extra.update(base_frames=nb, mutants=nm, distinct_nontrivial=nm)
    ctx.judged = nm
    viol, known = totality.settle(ctx, recs, lambda entry, kind, f: None)
    return vlib.finish(
        ctx, "model_checking",
        "OFMutate.tla lists, for each of %d base frames written by the specification's encoder (every kind Parse dispatches: "
        "switch-originated kinds, packet-in with packets, multipart replies, the controller-originated kinds with every action kind, and "
        "maximal frames of 65 480 - 65 535 bytes mutated in their first and last bytes), "
        "every truncation point, every byte position x 8-bit boundary values, every 16-bit position x length-like boundary values (0, 1, "
        "3, 4, 7, 8, len-1, len, len+1, 0x7fff, 0x8000, 0xfffe, 0xffff, +-1, +8), 32-bit fills, extensions%s: %d mutants. Each is fed to "
        "openflow13.Parse in a watched child process (CPU-time budget 2 s confirmed alone at 4 s, heap cap 1.5 GB); TLC judges the acceptor: "
        "every mutant ran and gave a message or an error, allocation linear in the input."
        % (nb, "" if q else " and pairs of length-like fields set together", nm),
        viol, known,
        ["the specification generates the adversarial space and accepts outcomes; it does not predict which of message / error a mutant yields",
         "time and memory proportional to the input are approximated by a CPU budget per input and a linear allocation bound per base frame"],
        exhaustive=False)


def replay(ctx, obj):
    return totality.replay(ctx, obj)
