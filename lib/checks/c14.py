"""C14 - concurrent use is safe: unique transaction ids, no cross-talk, no races."""
import os

import ofcorpus
import pipeline
import swcorpus
import vlib
from vlib import Infra

JUDGE = "XidTrace"
FATAL = "fatal error: concurrent map"


def model(ctx):
    cfg = ("SPECIFICATION Spec\nCONSTANTS\n  Procs = {1, 2, 3}\n  Draws = %d\n  Atomic = %s\n"
           "INVARIANTS Distinct PerProcIncreasing GapFree\n")
    d = 3 if ctx.quick() else 4
    r = ctx.tlc("Xid", cfg % (d, "TRUE"), workers=4, label="Xid[atomic]")
    if r["violation"]:
        raise Infra("Xid.tla (atomic) violates %s: the specification is wrong" % r["violation"])
    r2 = ctx.tlc("Xid", cfg % (2, "FALSE"), workers=1, label="Xid[split]")
    if r2["violation"] != "Distinct":
        raise Infra("sensitivity: the split read/write model was expected to violate Distinct, got %r" % r2["violation"])
    # unbounded: TLAPS proves pairwise distinctness of the atomic generator for any set of drawers and any number of draws
    nobl = ctx.tlapm("XidProof")
    ctx.extra["model"] = dict(atomic_states=r["distinct"], draws=d, procs=3,
                              split_model_refuted_after_states=r2["distinct"], tlaps_obligations_proved=nobl)


def run(ctx):
    q = ctx.quick()
    model(ctx)
    gs = [2, 8, 64] if q else [2, 4, 8, 16, 32, 64, 128]
    per = 1500 if q else 8000
    mps = [0] if q else [0, 2]
    scen = []
    for mp in mps:
        for g in gs:
            scen.append(dict(id="draw-g%d-mp%d" % (g, mp), k="draw", goroutines=g, per=per if g <= 16 else per // 4,
                             maxprocs=mp, seed=ctx.seed))
    sp = os.path.join(ctx.scratch, "scen-draw.ndjson")
    vlib.write_ndjson(sp, scen)
    env, rdir = vlib.race_env(ctx, "c14")
    tr = pipeline.record(ctx, "xid", sp, race=True, env=env)
    nrace, first = vlib.race_reports(rdir)
    vlib.patch_obs(tr, lambda r: r["obs"].__setitem__("races", nrace))
    if first:
        ctx.extra["race_report"] = first
    recs = vlib.judge(ctx, JUDGE, tr, workers=1, xmx="6g", label="XidTrace:draw", max_lines=4)
    info = [r["info"] for r in recs if "note" in r]
    ctx.extra.update(goroutine_counts=gs, draws_per_goroutine=per, gomaxprocs=mps,
                     ids_drawn=sum(s["goroutines"] * s["per"] for s in scen),
                     fetch_and_add_shape=dict(increasing=all(i["increasing"] for i in info), gapfree=all(i["gapfree"] for i in info)),
                     distinct_nontrivial=len(scen))
    # cross-talk: the construction corpus and the parse corpus processed sequentially and by G goroutines concurrently
    corpus = os.path.join(ctx.scratch, "conc-corpus.ndjson")
    rows = []
    for fam in (["A1", "M1", "S", "W", "L"] if q else ["A1", "A2", "M1", "M2", "I", "G", "S", "W", "L", "N", "O", "P"]):
        tags, stride = ofcorpus.FAMILIES[fam][0]
        p, n = pipeline.gen_tlc(ctx, "OFGen", ofcorpus.cfg(fam, tags, stride if q else max(1, stride // 3), 0), "OFGen[%s]" % fam, "x" + fam,
                                expect_min=1, workers=8, xmx="8g")
        rows += vlib.read_ndjson(p)
    frames = []
    for fam in swcorpus.FAMS:
        p, n = swcorpus.gen(ctx, fam, "{7}")
        frames += [dict(id=r["id"], frame=r["frame"]) for r in vlib.read_ndjson(p)]
    # packet-header kinds built and encoded concurrently too (protocol/: DHCP / LLDP codecs, IGMP, IPv6 chains, ...)
    pkts = []
    for fam, stride in (("DL", 1), ("DC", 1), ("IGMP", 1), ("EXT", 7), ("L4", 1), ("ETH", 1)):
        cfgtxt = "SPECIFICATION Spec\nCONSTANTS\n  Family = \"%s\"\n  Stride = %d\n  Phase = 0\n" % (fam, stride)
        p, n = pipeline.gen_tlc(ctx, "PktGen", cfgtxt, "PktGen[%s]" % fam, "xp" + fam, expect_min=5, workers=4, xmx="6g")
        for r in vlib.read_ndjson(p):
            x = ofcorpus._pkt_observe(r, ctx.seed)
            x.pop("trees", None)
            pkts.append(x)
    if q:
        pkts = pkts[::3]
    for r in rows:
        r.pop("trees", None)
    rows += pkts
    cap = 300 if q else 1500
    # values built with the constructors' defaults only (shared default state would show as order dependence)
    defaults = []
    for i, (ctor, args) in enumerate([("NewHello", [4]), ("NewFlowMod", []), ("NewGroupMod", []), ("NewSetConfig", []), ("NewEchoRequest", []),
                                      ("NewFeaturesRequest", []), ("NewTLVTableRequest", []), ("NewSetControllerID", [[0, 9]]),
                                      ("NewHelloElemVersionBitmap", []), ("NewInstrApplyActions", []), ("NewNXActionConnTrack", []),
                                      ("NewNXActionCTNAT", []), ("NewNXActionLearn", []), ("NewBucket", []), ("NewMatch", []),
                                      ("NewPhyPort", []), ("NewDescStats", []), ("NewPortStatus", []), ("NewFlowStats", []),
                                      ("NewEthernet", []), ("NewIPv4", []), ("NewUDP", []), ("NewICMP", [])]):
        ops = [dict(op="new", **{"as": "d"}, ctor=ctor, args=args)]
        if ctor in ("NewHello", "NewFlowMod", "NewGroupMod", "NewSetConfig", "NewEchoRequest", "NewFeaturesRequest"):
            ops.append(dict(op="set", obj="d", f="Xid", val=[0, 0, 1, i]))
        elif ctor in ("NewTLVTableRequest", "NewSetControllerID"):
            ops.append(dict(op="set", obj="d", f="Header.Xid", val=[0, 0, 1, i]))
        elif ctor == "NewPortStatus":
            ops.append(dict(op="set", obj="d", f="Xid", val=[0, 0, 1, i]))
        defaults.append(dict(id="default-%s" % ctor, k="build", fam="D", top="d", ops=ops, observe=[["len", "d"], ["marshal", "d"]], kids=[]))
    # registry lookups by name (generic builder and header lookup): the workers spell every name in a mix of cases of their own
    lookups = []
    names = (["NXM_NX_REG%d" % i for i in range(8)] + ["NXM_NX_CT_MARK", "NXM_NX_CT_ZONE", "NXM_NX_CT_STATE", "NXM_NX_TUN_ID",
             "NXM_OF_IN_PORT", "NXM_OF_ETH_TYPE", "NXM_OF_IP_PROTO", "NXM_NX_PKT_MARK", "NXM_NX_CONJ_ID", "NXM_NX_IP_TTL"])
    for i, nm in enumerate(names if q else names * 3):
        lookups.append(dict(id="lookup-%d-%s" % (i, nm), k="build", fam="D", top="f", respell=True,
                            ops=[dict(op="new", **{"as": "f"}, ctor="NewMatchFieldU64", args=[nm, [0, 0, 0, 0, 0, 0, 0, 1 + i % 2]])],
                            observe=[["len", "f"], ["marshal", "f"]], kids=[]))
    if len(rows) > cap:
        step = len(rows) / float(cap)
        rows = [rows[int(i * step)] for i in range(cap)]
    # hello frames with bitmaps that differ from the library's default are always part of the corpus
    fcap = 150 if q else 600
    sw = [f for f in frames if f["id"].startswith("SW-")]
    rest = [f for f in frames if not f["id"].startswith("SW-")]
    if len(rest) > fcap:
        step = len(rest) / float(fcap)
        rest = [rest[int(i * step)] for i in range(fcap)]
    nl = len(lookups) // 3
    rows = defaults[:len(defaults) // 2] + lookups[:nl] + rows + lookups[nl:2 * nl] + sw + rest + lookups[2 * nl:] + defaults[len(defaults) // 2:]
    vlib.write_ndjson(corpus, rows)
    cgs = [4, 16] if q else [2, 4, 16, 64]
    cscen = [dict(id="conc-g%d" % g, k="conc", corpus=corpus, goroutines=g, rounds=1 if q else 2, maxprocs=0, expect=len(rows) * g * (1 if q else 2))
             for g in cgs]
    cp = os.path.join(ctx.scratch, "scen-conc.ndjson")
    vlib.write_ndjson(cp, cscen)
    env2, rdir2 = vlib.race_env(ctx, "c14conc")
    try:
        ctr = pipeline.record(ctx, "conc", cp, race=True, env=env2, timeout=3000)
    except Infra as e:
        if FATAL not in str(e):
            raise
        # the Go runtime's own detector of unsynchronised map access stopped the process (it cannot be recovered from): library state
        # shared between goroutines was written during concurrent use.  That is the real code's behaviour, reported as it happened.
        ctx.extra.update(conc_scenarios=len(rows), conc_goroutines=cgs, distinct_nontrivial=len(scen) + len(rows))
        msg = str(e)
        at = msg.find(FATAL)
        viol = [vlib.save_replay(ctx.pid, "%s-conc-fatal" % ctx.tier, dict(
            property=ctx.pid, sub="conc", judge=JUDGE, constants="", race=True, scenario=cscen[0], corpus_rows=rows,
            judge_record=dict(pred="the process survives concurrent use", runtime=msg[at:at + 1500])))]
        return vlib.finish(ctx, "model_checking", "concurrent processing of %d scenarios by %s goroutines: the Go runtime aborted the process "
                           "(%s)" % (len(rows), cgs, msg[at:at + 60].splitlines()[0]), viol, [], [], exhaustive=False)
    nrace2, first2 = vlib.race_reports(rdir2)
    vlib.patch_obs(ctr, lambda r: r["obs"].__setitem__("races", nrace2))
    if first2:
        ctx.extra["race_report_conc"] = first2
    crecs = vlib.judge(ctx, JUDGE, ctr, workers=1, label="XidTrace:conc")
    ctx.extra.update(conc_scenarios=len(rows), conc_goroutines=cgs, distinct_nontrivial=len(scen) + len(rows))
    for r in crecs:
        r["_conc"] = True
    recs = recs + crecs
    viol = []
    for r in recs:
        if "reject" in r:
            line = vlib.nth_line(ctr if r.get("_conc") else tr, r["line"] if "line" in r else r["reject"])
            viol.append(vlib.save_replay(ctx.pid, "%s-%s" % (ctx.tier, r["id"]), dict(
                property=ctx.pid, sub="conc" if r.get("_conc") else "xid", judge=JUDGE, constants="", race=True,
                scenario={k: v for k, v in line.items() if k != "obs"}, **(dict(corpus_rows=rows) if r.get("_conc") else {}),
                judge_record={k: v for k, v in r.items() if not k.startswith("_")}, race_report=first)))
    ctx.sample(dict(scenario=scen[0], note="ids elided"))
    return vlib.finish(
        ctx, "model_checking",
        "TLAPS proves (XidProof.tla, inductive invariant) that fetch-and-add issues pairwise distinct ids for any number of drawers and draws; TLC explores every interleaving of 3 drawers x %d draws of Xid.tla (atomic fetch-and-add: Distinct, PerProcIncreasing, GapFree "
        "hold; the split read/write variant is refuted, so the invariant is not vacuous). On the code, %s goroutines (GOMAXPROCS %s) "
        "draw ids through every constructor that embeds a generated header (14 entry points) under the race detector; the recorded "
        "per-goroutine id sequences are judged by TLC against the abstract action 'Draw returns an id never returned before' "
        "(pairwise distinct). Cross-talk: %d independent scenarios (construction histories of the OFGen.tla corpus, built, encoded, "
        "parsed back and projected; packet headers of the PktGen.tla corpus built and encoded; frames of the OFSwGen.tla corpus parsed, projected and re-encoded) are processed once sequentially and "
        "(fresh input slices), again in reverse order and then concurrently by %s goroutines, each parsing out of its own reused receive "
        "buffer and projecting a value only after the next frame has overwritten that buffer (as the stream's pooled buffers do); TLC "
        "requires every later observation to equal the sequential one and no race report."
        % (ctx.extra["model"]["draws"], gs, mps, ctx.extra["conc_scenarios"], ctx.extra["conc_goroutines"]),
        viol, [],
        ["interleavings of the real goroutines are stress-sampled, not enumerated; race freedom is the Go race detector's verdict on the executions performed",
         "ids stay far below the 32-bit wrap in every run"],
        exhaustive=False)


def replay(ctx, obj):
    # schedule dependent: re-run the same draw several times
    sp = os.path.join(ctx.scratch, "scen-replay.ndjson")
    scenario = dict(obj["scenario"])
    if "corpus_rows" in obj:
        scenario["corpus"] = os.path.join(ctx.scratch, "replay-corpus.ndjson")
        vlib.write_ndjson(scenario["corpus"], obj["corpus_rows"])
    vlib.write_ndjson(sp, [dict(scenario, id="replay-%d" % i) for i in range(5)])
    env, rdir = vlib.race_env(ctx, "replay")
    try:
        tr = pipeline.record(ctx, obj.get("sub", "xid"), sp, race=True, env=env)
    except Infra as e:
        if FATAL not in str(e):
            raise
        print("VIOLATION property=%s replay=<this file> (reproduced: the Go runtime aborted the process: concurrent map access)" % ctx.pid)
        return 1
    nrace, _ = vlib.race_reports(rdir)
    vlib.patch_obs(tr, lambda r: r["obs"].__setitem__("races", nrace))
    recs = vlib.judge(ctx, JUDGE, tr, workers=1, xmx="6g", label="XidTrace:replay", max_lines=4)
    bad = [r for r in recs if "reject" in r]
    if bad:
        print("VIOLATION property=%s replay=<this file> (reproduced: %s)" % (ctx.pid, bad[0].get("pred")))
        return 1
    print("replay: not reproduced in 5 runs (schedule dependent)")
    return 0
