"""C17 - generic match-field builder places value and mask correctly or reports an error."""
import pipeline
import vlib

SUB, JUDGE = "matchbuilder", "MatchBuilderTrace"


def cfg(family, stride=1, phase=0):
    return "SPECIFICATION Spec\nCONSTANTS\n  Family = \"%s\"\n  Stride = %d\n  Phase = %d\n" % (family, stride, phase)


def run(ctx):
    recs = []
    q = ctx.quick()
    stride = 4 if q else 1
    p, nR = pipeline.gen_tlc(ctx, "MatchBuilderGen", cfg("R", stride, ctx.seed % stride), "MatchBuilderGen[R]", "R",
                             expect_min=2000, workers=4)
    recs += pipeline.run_family(ctx, SUB, p, JUDGE)[1]
    p, nF = pipeline.gen_tlc(ctx, "MatchBuilderGen", cfg("F"), "MatchBuilderGen[F]", "F", expect_min=5000, workers=4)
    recs += pipeline.run_family(ctx, SUB, p, JUDGE)[1]
    p, nT = pipeline.gen_tlc(ctx, "MatchBuilderGen", cfg("T"), "MatchBuilderGen[T]", "T", expect_min=1000, workers=4)
    recs += pipeline.run_family(ctx, SUB, p, JUDGE)[1]
    ctx.extra.update(reg_window_calls=nR, field_calls=nF, type_calls=nT, distinct_nontrivial=nR + nF + nT, reg_stride=stride)
    viol, known = pipeline.settle(ctx, SUB, JUDGE, "", recs)
    return vlib.finish(
        ctx, "model_checking",
        "TLC enumerates calls of the generic builder from MatchBuilder.tla: for a 32-bit register every window (offset, width) inside "
        "the field and one bit beyond it (stride %d over windows in this tier) x 7 value classes (zero, lowest bit, all ones, top bit, "
        "alternating, one bit too wide, window+1 ones) x the calling conventions (offset/width, offset/width/shift, value already in "
        "place incl. bits below the window, width taken from the value); every registered fixed-width field x 9 boundary windows "
        "(inside, straddling, beyond) x classes; every Go argument type (u8..u64, i8..int, []byte, net.IP, net.HardwareAddr, *big.Int) "
        "x sign x windows incl. negative and huge window arguments. TLC checks the property's clauses on the model (ModelOK) for each "
        "generated call; each call is executed on NewMatchField and NewRegMatchField and the returned error / recovered panic / encoded "
        "field / value and mask sizes / argument snapshot comparison are judged by TLC." % stride,
        viol, known,
        ["zero-width windows are outside the property's domain and are not generated",
         "the field table is Registry.tla (independent transcription, shared with C15)"],
        exhaustive=not q)


def replay(ctx, obj):
    return pipeline.replay_generic(ctx, obj)
