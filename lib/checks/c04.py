"""C04 - parsed messages expose exactly what a conforming switch put on the wire."""
import pipeline
import swcorpus
import vlib


def run(ctx):
    recs = swcorpus.run(ctx, "C04")
    viol, known = swcorpus.settle(ctx, "C04", recs)
    return vlib.finish(
        ctx, "model_checking",
        "OFSwitch.tla generates the trees of every switch-originated kind (hello with 1-2 elements, error with 0/1/64 data bytes, "
        "experimenter error, echo, barrier reply, features reply, get-config reply, flow-removed, port-status, packet-in x 8 packet kinds x "
        "match lists of 0/1/2/5 fields and every decodable match-field kind with/without mask, multipart replies desc / flow / aggregate / "
        "table / port / queue / port-desc with 0/1/2/5 records, TLV-table reply, bundle-control reply) and the controller-originated kinds; "
        "the frame is Enc(tree) of OFWire.tla (the independent encoder); the harness feeds it to Parse and projects the result; TLC judges: "
        "accepted, Go type = kind of the frame, Enc(projection) = frame (every wire-carried field equal, nothing dropped or shifted), "
        "reported size = frame size. Families: %s" % ctx.extra.get("families"),
        viol, known,
        ["echo payloads are not representable by the library's echo type and are not generated",
         "match-field kinds without a decoder (ACTSET_OUTPUT, NXM_OF_ARP_SPA/TPA) are not generated"], exhaustive=False)


def replay(ctx, obj):
    return pipeline.replay_generic(ctx, obj)
