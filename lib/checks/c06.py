"""C06 - decided on the construction-scenario corpus (see ofcorpus.py, OFGen.tla, OFTrace.tla)."""
import ofcorpus
import pipeline
import vlib


def run(ctx):
    recs = ofcorpus.run_families(ctx, "C06", ofcorpus.FAMS.get("C06"))
    recs += ofcorpus.run_packets(ctx, "C06")
    viol, known = ofcorpus.settle(ctx, "C06", recs)
    return vlib.finish(ctx, "model_checking", ofcorpus.RULES["C06"] + ofcorpus.corpus_text(ctx), viol, known,
                       ofcorpus.ASSUME, exhaustive=False)


def replay(ctx, obj):
    return pipeline.replay_generic(ctx, obj)
