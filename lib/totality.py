"""Shared driver of the totality checks (C07, C08): base frames -> OFMutate.tla (mutation descriptors) -> watched harness -> TotalTrace.tla."""
import json
import os

import pipeline
import vlib
from vlib import Infra

SUB, JUDGE = "total", "TotalTrace"


def mutate(ctx, base_rows, label, depth2, maxlen):
    """base_rows: dicts with id, entry, kind, frame.  Returns the scenario file with TLC-generated mutation lists."""
    bp = os.path.join(ctx.scratch, "base-%s.ndjson" % label)
    vlib.write_ndjson(bp, base_rows)
    cfg = ("SPECIFICATION Spec\nCONSTANTS\n  BaseFile = \"%s\"\n  Depth2 = %s\n  MaxLen = %d\n"
           % (os.path.basename(bp), "TRUE" if depth2 else "FALSE", maxlen))
    r = ctx.tlc("OFMutate", cfg, workers=8, xmx="12g", label="OFMutate[%s]" % label, extra_files=[bp], timeout=3000)
    if r["violation"]:
        raise Infra("OFMutate failed: %s" % r["violation"])
    scen = r["lines"]
    if not scen:
        raise Infra("OFMutate[%s] emitted nothing" % label)
    sp = os.path.join(ctx.scratch, "scen-%s.ndjson" % label)
    vlib.write_ndjson(sp, scen)
    return sp, len(scen), sum(len(s["muts"]) + 1 for s in scen)


def run(ctx, sp, label):
    tr = pipeline.record(ctx, SUB, sp, timeout=7000)
    recs = vlib.judge(ctx, JUDGE, tr, workers=2, xmx="4g", max_lines=2000, label=JUDGE + ":" + label)
    for r in recs:
        r["_trace"], r["_scen"] = tr, sp
    return tr, recs


def settle(ctx, recs, key_of):
    """Every failing mutant is a violation unless its key is a listed known finding.  key_of(entry, kind, failure) -> id or None."""
    known = vlib.load_known(ctx.pid)
    viol, seen, kf_lines = [], set(), []
    for r in recs:
        if "reject" not in r:
            continue
        fails = r.get("failures") or []
        if not fails:
            fails = [dict(outcome=r["pred"], i=-9)]
        scen = None
        for f in fails:
            if f.get("outcome") == "more":
                continue
            kid = key_of(r.get("entry"), r.get("kind"), f)
            if kid and kid in known:
                ctx.kf_seen[kid] = ctx.kf_seen.get(kid, 0) + 1
                continue
            sig = (r.get("entry"), f.get("outcome"), f.get("where"))
            if sig in seen or len(viol) >= 10:
                continue
            seen.add(sig)
            if scen is None:
                scen = vlib.nth_line(r["_scen"], r["line"])
            one = dict(id=scen["id"], k="total", entry=scen["entry"], kind=scen.get("kind"), frame=scen["frame"],
                       muts=[f["mut"]] if "mut" in f else [])
            # reproduce alone
            d = ctx.sub("confirm-%d" % len(viol))
            p1 = os.path.join(d, "scen-one.ndjson")
            vlib.write_ndjson(p1, [one])
            t1 = pipeline.record(ctx, SUB, p1)
            o1 = vlib.nth_line(t1, 1)["obs"]
            if not o1["failures"] and f.get("i") != -9:
                vlib.log("[%s] failure %s did not reproduce alone" % (ctx.pid, sig))
                continue
            name = "%s-%s-%s-%d" % (ctx.tier, scen["entry"], f.get("outcome"), len(viol) + 1)
            viol.append(vlib.save_replay(ctx.pid, name, dict(property=ctx.pid, sub=SUB, judge=JUDGE, constants="", scenario=one,
                                                            observed=o1, failure=f)))
    for kid in sorted(ctx.kf_seen):
        kf_lines.append("%s %s" % (kid, known[kid].get("what", "")))
    return viol, kf_lines


def replay(ctx, obj):
    d = ctx.sub("replay")
    p1 = os.path.join(d, "scen-one.ndjson")
    vlib.write_ndjson(p1, [obj["scenario"]])
    t1 = pipeline.record(ctx, SUB, p1)
    o1 = vlib.nth_line(t1, 1)["obs"]
    print(json.dumps(o1)[:2000])
    if o1["failures"] or o1["msg"] + o1["err"] != len(obj["scenario"]["muts"]) + 1:
        print("VIOLATION property=%s replay=<this file> (reproduced)" % ctx.pid)
        return 1
    print("replay: every mutant gives a message or an error on the current tree")
    return 0
