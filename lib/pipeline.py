"""generate -> replay & record -> judge, shared by the sequential-API properties."""
import json
import os
import random
import tempfile

import vlib
from vlib import Infra, log


def gen_tlc(ctx, module, cfg, label, prefix, simulate=None, depth=None, workers=8, seed=None,
            timeout=1800, xmx="6g", expect_min=1, dedup=False, cap=None):
    """Run a generator spec; every PrintT(ToJson(..)) line is one scenario.  Returns the
    path of the scenario file (ids added)."""
    r = ctx.tlc(module, cfg, workers=workers, simulate=simulate, depth=depth, seed=seed,
                timeout=timeout, xmx=xmx, label=label)
    if r["violation"]:
        # a design-level invariant failed on the specification itself: that is a defect of
        # the machinery (the spec is wrong), not of the code.
        raise Infra("specification %s violates its own design invariant %s" % (label, r["violation"]))
    scen = r["lines"]
    if dedup:
        seen, out = set(), []
        for s in scen:
            k = json.dumps(s, sort_keys=True)
            if k not in seen:
                seen.add(k)
                out.append(s)
        scen = out
    if cap and len(scen) > cap:
        rnd = random.Random(ctx.seed)
        scen = rnd.sample(scen, cap)
    if len(scen) < expect_min:
        raise Infra("generator %s emitted %d scenarios (expected >= %d)" % (label, len(scen), expect_min))
    path = os.path.join(ctx.scratch, "scen-%s.ndjson" % prefix)
    for i, s in enumerate(scen, 1):
        s["id"] = "%s-%d" % (prefix, i)
    vlib.write_ndjson(path, scen)
    return path, len(scen)


def record(ctx, sub, scen_path, race=False, extra_args=(), timeout=3600, env=None):
    out = scen_path.replace("scen-", "trace-")
    if out == scen_path:
        out = scen_path + ".trace"
    ctx.run_harness([sub, "-in", scen_path, "-out", out] + list(extra_args), race=race, timeout=timeout, env=env)
    n_in, n_out = vlib.count_lines(scen_path), vlib.count_lines(out)
    if n_in != n_out:
        raise Infra("harness %s recorded %d lines for %d scenarios" % (sub, n_out, n_in))
    return out


def run_family(ctx, sub, scen_path, judge_module, constants="", race=False, extra_args=(),
               judge_workers=2, max_lines=60000, env=None):
    """Replay one scenario file and judge it.  Returns (trace_path, records)."""
    trace = record(ctx, sub, scen_path, race=race, extra_args=extra_args, env=env)
    recs = vlib.judge(ctx, judge_module, trace, constants=constants, workers=judge_workers,
                      max_lines=max_lines, label=judge_module + ":" + os.path.basename(scen_path))
    for r in recs:
        r["_trace"] = trace
        r["_scen"] = scen_path
    first = vlib.nth_line(trace, 1)
    if first is not None:
        ctx.sample(first)
    return trace, recs


def confirm(ctx, sub, judge_module, constants, scenario, race=False, extra_args=(), env=None):
    """Re-run one scenario alone through harness + judge; True if it is still rejected
    (or still needs a deviation)."""
    d = tempfile.mkdtemp(prefix="confirm-", dir=ctx.scratch)
    sp = os.path.join(d, "scen-one.ndjson")
    sc = {k: v for k, v in scenario.items() if k != "obs"}
    vlib.write_ndjson(sp, [sc])
    tr = record(ctx, sub, sp, race=race, extra_args=extra_args, env=env)
    before = ctx.judged
    recs = vlib.judge(ctx, judge_module, tr, constants=constants, workers=1, label=judge_module + ":confirm")
    ctx.judged = before
    return [r for r in recs if "reject" in r or "kf" in r], vlib.nth_line(tr, 1)


def confirm_in_context(ctx, sub, judge_module, constants, scenarios, target_id, pred, race=False, extra_args=(), env=None):
    """Re-run a whole list of scenarios (a rejection that depends on what was processed before / after the rejected line) and return
    the rejections of target_id with the same predicate."""
    d = tempfile.mkdtemp(prefix="confirm-ctx-", dir=ctx.scratch)
    sp = os.path.join(d, "scen-all.ndjson")
    vlib.write_ndjson(sp, [{k: v for k, v in sc.items() if k != "obs"} for sc in scenarios])
    tr = record(ctx, sub, sp, race=race, extra_args=extra_args, env=env)
    before = ctx.judged
    recs = vlib.judge(ctx, judge_module, tr, constants=constants, workers=1, label=judge_module + ":confirm-in-context")
    ctx.judged = before
    hits = [r for r in recs if "reject" in r and r.get("id") == target_id and r.get("pred") == pred]
    obs = None
    if hits:
        obs = vlib.nth_line(tr, hits[0]["reject"])
    return hits, obs


CONTEXT_PREDS = ("messages parsed afterwards",)      # predicates whose verdict depends on the other lines of the same run


def settle(ctx, sub, judge_module, constants, recs, race=False, extra_args=(), max_report=8,
           sig=lambda r: r.get("pred", "?"), env=None):
    """Turn judge records into (violations, known_lines).  Each distinct signature is
    confirmed by re-running its scenario alone; an unreproduced rejection is an
    infrastructure failure, never a violation."""
    known = vlib.load_known(ctx.pid)
    violations, known_lines = [], []
    by_sig = {}
    for r in recs:
        if "kf" in r:
            name = r["kf"]
            if name in known:
                ctx.kf_seen[name] = ctx.kf_seen.get(name, 0) + 1
                continue
            r = dict(r, pred="unlisted-deviation:" + name, reject=r.get("l"))
        if "reject" not in r:
            continue
        by_sig.setdefault(sig(r), []).append(r)
    for name in sorted(ctx.kf_seen):
        known_lines.append("%s %s" % (name, known[name].get("what", "")))
    ctx.extra["reject_records"] = sum(len(v) for v in by_sig.values())
    unreproduced = 0
    for s in sorted(by_sig, key=str):
        if len(violations) >= max_report:
            break
        r = by_sig[s][0]
        line = r.get("line") or r.get("reject")
        scenario = vlib.nth_line(r["_trace"], line)
        if scenario is None:
            raise Infra("cannot find line %s of %s" % (line, r["_trace"]))
        in_context = str(r.get("pred", "")).startswith(CONTEXT_PREDS)
        if in_context:
            everything = vlib.read_ndjson(r["_trace"])
            again, observed = confirm_in_context(ctx, sub, judge_module, constants, everything, scenario.get("id"), r.get("pred"),
                                                 race=race, extra_args=extra_args, env=env)
        else:
            again, observed = confirm(ctx, sub, judge_module, constants, scenario, race=race,
                                      extra_args=extra_args, env=env)
        if not again:
            unreproduced += 1
            log("[%s] rejection %s at line %s did not reproduce" % (ctx.pid, s, line))
            continue
        rec = {k: v for k, v in again[0].items() if not k.startswith("_")}
        name = "%s-%s-%d" % (ctx.tier, str(s).replace("/", "_").replace(" ", "_")[:60], len(violations) + 1)
        path = vlib.save_replay(ctx.pid, name, dict(
            property=ctx.pid, sub=sub, judge=judge_module, constants=constants, race=race,
            extra_args=list(extra_args), scenario={k: v for k, v in scenario.items() if k != "obs"},
            observed=observed.get("obs") if observed else None, judge_record=rec,
            occurrences=len(by_sig[s]),
            **({"context": [{k: v for k, v in sc.items() if k != "obs"} for sc in everything], "pred": r.get("pred")} if in_context else {})))
        violations.append(path)
    if unreproduced and not violations:
        raise Infra("%d rejection(s) did not reproduce when re-run alone" % unreproduced)
    return violations, known_lines


def replay_generic(ctx, obj):
    """bin/check --replay <file>: re-run the stored scenario and print the verdict."""
    if "context" in obj:      # the verdict depends on the other scenarios of the run: replay them all
        again, observed = confirm_in_context(ctx, obj["sub"], obj["judge"], obj.get("constants", ""), obj["context"], obj["scenario"].get("id"),
                                             obj.get("pred"), race=obj.get("race", False), extra_args=obj.get("extra_args", ()))
    else:
        again, observed = confirm(ctx, obj["sub"], obj["judge"], obj.get("constants", ""), obj["scenario"],
                                  race=obj.get("race", False), extra_args=obj.get("extra_args", ()))
    known = vlib.load_known(ctx.pid)
    again = [r for r in again if not ("kf" in r and r["kf"] in known)]
    print(json.dumps(dict(scenario=obj["scenario"], observed=observed.get("obs") if observed else None,
                          judge=[{k: v for k, v in r.items() if not k.startswith("_")} for r in again]))[:4000])
    if again:
        print("VIOLATION property=%s replay=%s (reproduced)" % (ctx.pid, "<this file>"))
        return 1
    print("replay: the scenario is accepted by the specification on the current tree")
    return 0
