package main

// Cross-talk part of C14: a corpus of independent scenarios (construction
// histories and frames to parse) is processed once sequentially and once by G
// goroutines concurrently; the two observations of every scenario are compared
// with each other (no expected values), under the race detector.

import (
	"bufio"
	"bytes"
	"encoding/json"
	"os"
	"runtime"
	"strings"
	"sync"

	of "github.com/contiv/libOpenflow/openflow13"
)

func init() { subcommands["conc"] = concCmd }

func observeScenario(sc J) []byte {
	out := J{}
	if _, ok := sc["ops"]; ok {
		o := runBuild(sc)
		out["build"] = o
		// parse what was built and project it
		if rs, ok := o["results"].([]J); ok {
			for i := len(rs) - 1; i >= 0; i-- {
				if bl, ok := rs[i]["bytes"].([]int); ok {
					b := make([]byte, len(bl))
					for k, x := range bl {
						b[k] = byte(x)
					}
					p, _ := guard(func() {
						m, err := of.Parse(b)
						out["parsedErr"] = err != nil
						if m != nil && err == nil {
							out["parsed"] = projectMsg(m)
						}
					})
					if p != nil {
						out["parsePanic"] = p
					}
					break
				}
			}
		}
	}
	if fr, ok := sc["frame"]; ok {
		b := toBytes(fr)
		p, _ := guard(func() {
			m, err := of.Parse(b)
			out["err"] = err != nil
			if m != nil && err == nil {
				out["tree"] = projectMsg(m)
				rb, _ := m.MarshalBinary()
				out["reenc"] = byteList(rb)
			}
		})
		if p != nil {
			out["panic"] = p
		}
	}
	js, _ := json.Marshal(out)
	return js
}

func concCmd(args []string) error {
	in, out, err := ioFlags("conc", args, nil)
	if err != nil {
		return err
	}
	return eachLine(in, out, func(n int, sc J) J {
		obs := J{}
		sc["obs"] = obs
		// load the corpus
		f, err := os.Open(sc["corpus"].(string))
		if err != nil {
			obs["panic"] = err.Error()
			return sc
		}
		var corpus []J
		rd := bufio.NewReaderSize(f, 1<<20)
		for {
			ln, err := rd.ReadBytes('\n')
			if len(strings.TrimSpace(string(ln))) > 0 {
				var x J
				d := json.NewDecoder(bytes.NewReader(ln))
				d.UseNumber()
				if d.Decode(&x) == nil {
					corpus = append(corpus, x)
				}
			}
			if err != nil {
				break
			}
		}
		f.Close()
		if mp := toInt(sc["maxprocs"]); mp > 0 {
			defer runtime.GOMAXPROCS(runtime.GOMAXPROCS(mp))
		}
		g := toInt(sc["goroutines"])
		rounds := toInt(sc["rounds"])
		clone := func(i int) J {
			var c J
			js, _ := json.Marshal(corpus[i])
			d := json.NewDecoder(bytes.NewReader(js))
			d.UseNumber()
			d.Decode(&c)
			return c
		}
		// sequential reference, forward; then again in reverse order: independent values do not depend on what was processed before
		seq := make([][]byte, len(corpus))
		for i := range corpus {
			seq[i] = observeScenario(clone(i))
		}
		orderMismatches := 0
		for i := len(corpus) - 1; i >= 0; i-- {
			if !bytes.Equal(observeScenario(clone(i)), seq[i]) {
				orderMismatches++
			}
		}
		obs["orderMismatches"] = orderMismatches
		mismatches, compared := 0, 0
		var mu sync.Mutex
		first := ""
		for r := 0; r < rounds; r++ {
			var wg sync.WaitGroup
			start := make(chan struct{})
			for w := 0; w < g; w++ {
				wg.Add(1)
				go func(w int) {
					defer wg.Done()
					<-start
					// every goroutine processes the whole corpus, each starting at its own offset
					off := (w * len(corpus)) / g
					for k := 0; k < len(corpus); k++ {
						i := (off + k) % len(corpus)
						got := observeScenario(clone(i))
						mu.Lock()
						compared++
						if !bytes.Equal(got, seq[i]) {
							mismatches++
							if first == "" {
								first, _ = corpus[i]["id"].(string)
							}
						}
						mu.Unlock()
					}
				}(w)
			}
			close(start)
			wg.Wait()
		}
		obs["compared"], obs["mismatches"], obs["scenarios"] = compared, mismatches, len(corpus)
		if first != "" {
			obs["first"] = first
		}
		return sc
	})
}
