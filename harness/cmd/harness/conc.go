package main

// Cross-talk part of C14: a corpus of independent scenarios (construction
// histories and frames to parse) is processed once sequentially and once by G
// goroutines concurrently; the two observations of every scenario are compared
// with each other (no expected values), under the race detector.

import (
	"bufio"
	"bytes"
	"encoding/json"
	"os"
	"runtime"
	"strings"
	"sync"

	of "github.com/contiv/libOpenflow/openflow13"
	"github.com/contiv/libOpenflow/util"
)

func init() { subcommands["conc"] = concCmd }

// recvBuf is a receive buffer that is reused for every frame, as the stream's pooled buffers are.
type recvBuf struct{ b []byte }

func (r *recvBuf) load(src []byte) []byte {
	if r == nil {
		return append([]byte(nil), src...)
	}
	if cap(r.b) < len(src) {
		r.b = make([]byte, len(src), 2*len(src)+64)
	}
	r.b = r.b[:len(src)]
	copy(r.b, src)
	return r.b
}

// observeScenario builds / parses one scenario.  The frames are parsed out of rb (a fresh slice when rb is nil); the returned
// function projects what was parsed -- the callers that reuse rb call it only after the next scenario has overwritten rb, so a
// parsed value that still points into its input shows up as a difference from the sequential reference.
func observeScenario(sc J, rb *recvBuf) func() []byte {
	out := J{}
	var later []func()
	if _, ok := sc["ops"]; ok {
		o := runBuild(sc)
		out["build"] = o
		// parse what was built and project it
		if rs, ok := o["results"].([]J); ok {
			for i := len(rs) - 1; i >= 0; i-- {
				if bl, ok := rs[i]["bytes"].([]int); ok {
					src := make([]byte, len(bl))
					for k, x := range bl {
						src[k] = byte(x)
					}
					b := rb.load(src)
					var m util.Message
					p, _ := guard(func() {
						var err error
						m, err = of.Parse(b)
						out["parsedErr"] = err != nil
						if err != nil {
							m = nil
						}
					})
					if p != nil {
						out["parsePanic"] = p
					} else if m != nil {
						later = append(later, func() { out["parsed"] = projectMsg(m) })
					}
					break
				}
			}
		}
	}
	if fr, ok := sc["frame"]; ok {
		b := rb.load(toBytes(fr))
		var m util.Message
		p, _ := guard(func() {
			var err error
			m, err = of.Parse(b)
			out["err"] = err != nil
			if err != nil {
				m = nil
			}
		})
		if p != nil {
			out["panic"] = p
		} else if m != nil {
			later = append(later, func() {
				p, _ := guard(func() {
					out["tree"] = projectMsg(m)
					rb, _ := m.MarshalBinary()
					out["reenc"] = byteList(rb)
				})
				if p != nil {
					out["panic"] = p
				}
			})
		}
	}
	return func() []byte {
		for _, f := range later {
			f()
		}
		js, _ := json.Marshal(out)
		return js
	}
}

func concCmd(args []string) error {
	in, out, err := ioFlags("conc", args, nil)
	if err != nil {
		return err
	}
	return eachLine(in, out, func(n int, sc J) J {
		obs := J{}
		sc["obs"] = obs
		// load the corpus
		f, err := os.Open(sc["corpus"].(string))
		if err != nil {
			obs["panic"] = err.Error()
			return sc
		}
		var corpus []J
		rd := bufio.NewReaderSize(f, 1<<20)
		for {
			ln, err := rd.ReadBytes('\n')
			if len(strings.TrimSpace(string(ln))) > 0 {
				var x J
				d := json.NewDecoder(bytes.NewReader(ln))
				d.UseNumber()
				if d.Decode(&x) == nil {
					corpus = append(corpus, x)
				}
			}
			if err != nil {
				break
			}
		}
		f.Close()
		if mp := toInt(sc["maxprocs"]); mp > 0 {
			defer runtime.GOMAXPROCS(runtime.GOMAXPROCS(mp))
		}
		g := toInt(sc["goroutines"])
		rounds := toInt(sc["rounds"])
		clone := func(i int) J {
			var c J
			js, _ := json.Marshal(corpus[i])
			d := json.NewDecoder(bytes.NewReader(js))
			d.UseNumber()
			d.Decode(&c)
			return c
		}
		// scenarios marked "respell" name registry fields; the concurrent workers spell each name in their own mix of upper and lower
		// case (the lookup is case-insensitive, so the result must equal the sequential reference made with the canonical spelling),
		// a spelling no other goroutine or round uses: a first-use path of the lookup runs while other goroutines are looking up too
		respell := func(c J, w, r, i int) J {
			if b, _ := c["respell"].(bool); !b {
				return c
			}
			mask := uint((w+1)*2654435761 + (r+1)*40503 + i*97)
			ops, _ := c["ops"].([]interface{})
			for _, o := range ops {
				op, _ := o.(map[string]interface{})
				as, _ := op["args"].([]interface{})
				for k, a := range as {
					if str, ok := a.(string); ok {
						bs := []byte(str)
						n, changed := 0, false
						for x, ch := range bs {
							if ch >= 'A' && ch <= 'Z' {
								if mask>>(uint(n)%24)&1 == 1 {
									bs[x] = ch + 32
									changed = true
								}
								n++
							}
						}
						if !changed && len(bs) > 0 && bs[0] >= 'A' && bs[0] <= 'Z' {
							bs[0] += 32
						}
						as[k] = string(bs)
					}
				}
			}
			return c
		}
		// sequential reference, forward; then again in reverse order: independent values do not depend on what was processed before
		seq := make([][]byte, len(corpus))
		for i := range corpus {
			seq[i] = observeScenario(clone(i), nil)()
		}
		orderMismatches := 0
		{
			rb := &recvBuf{}
			var prev func() []byte
			prevIdx := -1
			for i := len(corpus) - 1; i >= -1; i-- {
				var cur func() []byte
				if i >= 0 {
					cur = observeScenario(clone(i), rb)
				}
				if prev != nil && !bytes.Equal(prev(), seq[prevIdx]) {
					orderMismatches++
				}
				prev, prevIdx = cur, i
			}
		}
		obs["orderMismatches"] = orderMismatches
		mismatches, compared := 0, 0
		first := ""
		// per-goroutine tallies, merged after the round: no lock is shared between the workers while they run, so the race detector
		// sees no accidental happens-before edges between their library calls
		type tally struct {
			compared, mismatches int
			first                string
		}
		for r := 0; r < rounds; r++ {
			var wg sync.WaitGroup
			start := make(chan struct{})
			tallies := make([]tally, g)
			for w := 0; w < g; w++ {
				wg.Add(1)
				go func(w int) {
					defer wg.Done()
					t := &tallies[w]
					<-start
					// every goroutine processes the whole corpus, each starting at its own offset
					// and parses out of its own reused receive buffer; a value is projected after the next frame has arrived
					off := (w * len(corpus)) / g
					rb := &recvBuf{}
					var prev func() []byte
					prevIdx := -1
					for k := 0; k <= len(corpus); k++ {
						i := (off + k) % len(corpus)
						var cur func() []byte
						if k < len(corpus) {
							cur = observeScenario(respell(clone(i), w, r, i), rb)
						}
						if prev != nil {
							got := prev()
							t.compared++
							if !bytes.Equal(got, seq[prevIdx]) {
								t.mismatches++
								if t.first == "" {
									t.first, _ = corpus[prevIdx]["id"].(string)
								}
							}
						}
						prev, prevIdx = cur, i
					}
				}(w)
			}
			close(start)
			wg.Wait()
			for _, t := range tallies {
				compared += t.compared
				mismatches += t.mismatches
				if first == "" {
					first = t.first
				}
			}
		}
		obs["compared"], obs["mismatches"], obs["scenarios"] = compared, mismatches, len(corpus)
		if first != "" {
			obs["first"] = first
		}
		return sc
	})
}
