package main

import (
	"encoding/binary"
	"flag"
	"math/rand"
	"runtime"
	"strings"
	"sync"
	"sync/atomic"

	of "github.com/contiv/libOpenflow/openflow13"
)

func init() {
	subcommands["registry"] = registryCmd
	subcommands["registry-sweep"] = registrySweepCmd
	subcommands["registry-conc"] = registryConcCmd
}

func applyCase(name, cs string) string {
	switch cs {
	case "upper":
		return strings.ToUpper(name)
	case "lower":
		return strings.ToLower(name)
	case "mixed":
		b := []byte(strings.ToLower(name))
		for i := range b {
			if i%2 == 0 && b[i] >= 'a' && b[i] <= 'z' {
				b[i] -= 32
			}
		}
		return string(b)
	}
	return name
}

func hdrObs(f *of.MatchField, err error) J {
	r := J{"err": err != nil}
	if err == nil && f != nil {
		r["class"], r["field"], r["hasmask"], r["length"] = int(f.Class), int(f.Field), f.HasMask, int(f.Length)
		r["novalue"] = f.Value == nil && f.Mask == nil
	}
	return r
}

func registryCmd(args []string) error {
	in, out, err := ioFlags("registry", args, nil)
	if err != nil {
		return err
	}
	return eachLine(in, out, func(n int, sc J) J {
		obs := J{}
		p, where := guard(func() {
			switch sc["k"].(string) {
			case "lookup":
				name := applyCase(sc["name"].(string), sc["case"].(string))
				mask := toInt(sc["mask"]) == 1
				f1, e1 := of.FindFieldHeaderByName(name, mask)
				obs["first"] = hdrObs(f1, e1)
				if f1 != nil { // scribble over the returned value
					f1.Class, f1.Field, f1.HasMask, f1.Length = 0xdead, 0x7f, !f1.HasMask, 0xee
					f1.Value = &of.Uint32Message{Data: 1}
				}
				f2, e2 := of.FindFieldHeaderByName(name, mask)
				obs["again"] = hdrObs(f2, e2)
				if f2 != nil {
					f2.Length = 0
				}
				f3, e3 := of.FindFieldHeaderByName(name, !mask)
				obs["other"] = hdrObs(f3, e3)
			case "pack":
				m := &of.MatchField{Class: uint16(toInt(sc["class"])), Field: uint8(toInt(sc["field"])),
					HasMask: toInt(sc["mask"]) == 1, Length: uint8(toInt(sc["len"]))}
				w := make([]byte, 4)
				binary.BigEndian.PutUint32(w, m.MarshalHeader())
				obs["word"] = byteList(w)
				u := new(of.MatchField)
				e := u.UnmarshalHeader(toBytes(sc["word"]))
				obs["un"] = hdrObs(u, e)
			}
		})
		if p != nil {
			obs["panic"] = p
			obs["where"] = where
		}
		sc["obs"] = obs
		return sc
	})
}

// registrySweepCmd: oracle-free self-inverse sweep pack(unpack(w)) == w over a range of header words.
func registrySweepCmd(args []string) error {
	var stride uint64
	in, out, err := ioFlags("registry-sweep", args, func(fs *flag.FlagSet) { fs.Uint64Var(&stride, "stride", 1, "") })
	if err != nil {
		return err
	}
	return eachLine(in, out, func(n int, sc J) J {
		st := toU64(sc["stride"])
		off := toU64(sc["offset"])
		var count, bad uint64
		var firstBad uint64
		var wg sync.WaitGroup
		nw := uint64(runtime.NumCPU())
		for k := uint64(0); k < nw; k++ {
			wg.Add(1)
			go func(k uint64) {
				defer wg.Done()
				var c, b uint64
				buf := make([]byte, 4)
				m := new(of.MatchField)
				for w := off + k*st; w < 1<<32; w += st * nw {
					binary.BigEndian.PutUint32(buf, uint32(w))
					if m.UnmarshalHeader(buf) != nil || m.MarshalHeader() != uint32(w) {
						if b == 0 {
							atomic.CompareAndSwapUint64(&firstBad, 0, w+1)
						}
						b++
					}
					c++
				}
				atomic.AddUint64(&count, c)
				atomic.AddUint64(&bad, b)
			}(k)
		}
		wg.Wait()
		sc["obs"] = J{"count": count, "mismatches": bad, "first_bad": firstBad}
		return sc
	})
}

// registryConcCmd: concurrent lookups and mutation of the results (run under -race).
func registryConcCmd(args []string) error {
	in, out, err := ioFlags("registry-conc", args, nil)
	if err != nil {
		return err
	}
	return eachLine(in, out, func(n int, sc J) J {
		names := []string{}
		for _, x := range sc["names"].([]interface{}) {
			names = append(names, x.(string))
		}
		g, iters, seed := toInt(sc["goroutines"]), toInt(sc["iters"]), toInt(sc["seed"])
		type key struct {
			n string
			m bool
		}
		base := map[key]of.MatchField{}
		ok := map[key]bool{}
		for _, nm := range names {
			for _, m := range []bool{false, true} {
				f, e := of.FindFieldHeaderByName(nm, m)
				if e == nil {
					base[key{nm, m}] = *f
					ok[key{nm, m}] = true
				}
			}
		}
		var mism int64
		var wg sync.WaitGroup
		for i := 0; i < g; i++ {
			wg.Add(1)
			go func(i int) {
				defer wg.Done()
				r := rand.New(rand.NewSource(int64(seed*1000 + i)))
				for j := 0; j < iters; j++ {
					nm, m := names[r.Intn(len(names))], r.Intn(2) == 1
					// a lookup that panics where the sequential one returned differs from it (a panic in a goroutine would end the process)
					f, e, panicked := func(name string) (f *of.MatchField, e error, p bool) {
						defer func() {
							if recover() != nil {
								p = true
							}
						}()
						f, e = of.FindFieldHeaderByName(name, m)
						return
					}(applyCase(nm, []string{"upper", "lower", "mixed"}[r.Intn(3)]))
					if panicked || (e == nil) != ok[key{nm, m}] {
						atomic.AddInt64(&mism, 1)
						continue
					}
					if e != nil {
						continue
					}
					b := base[key{nm, m}]
					if f.Class != b.Class || f.Field != b.Field || f.HasMask != b.HasMask || f.Length != b.Length {
						atomic.AddInt64(&mism, 1)
					}
					f.Class, f.Field, f.HasMask, f.Length = uint16(j), uint8(j), !f.HasMask, uint8(i)
				}
			}(i)
		}
		wg.Wait()
		sc["obs"] = J{"mismatches": mism}
		return sc
	})
}
