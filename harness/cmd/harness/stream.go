package main

// Rig around the real util.MessageStream: a scripted net.Conn, a gating
// Parser wrapping openflow13.Parse, a consumer, and a mutex-ordered event
// log.  The rig contains no verdicts: the recorded events are judged by TLC
// against StreamExt.tla / StreamOut.tla.

import (
	"io"
	"errors"
	log "github.com/sirupsen/logrus"
	"math/rand"
	"net"
	"runtime"
	"sync"
	"time"

	"github.com/contiv/libOpenflow/common"
	of "github.com/contiv/libOpenflow/openflow13"
	"github.com/contiv/libOpenflow/protocol"
	"github.com/contiv/libOpenflow/util"
)

func init() {
	subcommands["stream-in"] = streamInCmd
	subcommands["stream-out"] = streamOutCmd
}

type evlog struct {
	mu     sync.Mutex
	events []J
	last   time.Time
	closed bool
}

func (l *evlog) add(e J) {
	l.mu.Lock()
	if !l.closed {
		l.events = append(l.events, e)
		l.last = time.Now()
	}
	l.mu.Unlock()
}

func (l *evlog) idleFor() time.Duration {
	l.mu.Lock()
	defer l.mu.Unlock()
	return time.Since(l.last)
}

type addr struct{}

func (addr) Network() string { return "scripted" }
func (addr) String() string  { return "scripted" }

// scriptedConn: Read blocks until the rig feeds a chunk, a failure, or Close.
type scriptedConn struct {
	log      *evlog
	feed     chan []byte
	fail     chan struct{}
	closedCh chan struct{}
	once     sync.Once
	rest     []byte
	reads    int64 // number of Read calls that have started (atomic via mu)
	mu       sync.Mutex
	readWait chan struct{} // signalled (non-blocking) whenever a Read call starts
	// outbound side
	writeDelay time.Duration
	wmu        sync.Mutex
	inWrite    int
	overlap    int
	wbudget    int64 // bytes the writer may write before it is cut off (0 = no limit)
	written    int64
	overrun    bool
	overrunCh  chan struct{}
	failEOF    bool  // inbound failure is reported as io.EOF (the peer closed its end) instead of a generic error
	faultAt    int64 // outbound fault: the Write call that crosses this byte offset accepts only the bytes up to it and reports a timeout
	faulted    bool
	faultCh    chan struct{}
}

// timeoutErr is what a net.Conn returns when a write deadline lapses.
type timeoutErr struct{}

func (timeoutErr) Error() string   { return "i/o timeout" }
func (timeoutErr) Timeout() bool   { return true }
func (timeoutErr) Temporary() bool { return true }

func newScriptedConn(l *evlog) *scriptedConn {
	return &scriptedConn{log: l, feed: make(chan []byte, 1<<16), fail: make(chan struct{}, 1),
		closedCh: make(chan struct{}), readWait: make(chan struct{}, 1), overrunCh: make(chan struct{}), faultCh: make(chan struct{})}
}

func (c *scriptedConn) Read(p []byte) (int, error) {
	c.mu.Lock()
	c.reads++
	c.mu.Unlock()
	select {
	case c.readWait <- struct{}{}:
	default:
	}
	if len(c.rest) == 0 {
		select {
		case <-c.closedCh:
			return 0, errors.New("read scripted: use of closed network connection")
		default:
		}
		select {
		case b := <-c.feed:
			c.rest = b
		case <-c.fail:
			c.log.add(J{"e": "Fail"})
			if c.failEOF {
				return 0, io.EOF // the peer closed its end
			}
			return 0, errors.New("scripted connection failure")
		case <-c.closedCh:
			return 0, errors.New("read scripted: use of closed network connection")
		}
	}
	n := copy(p, c.rest)
	c.rest = c.rest[n:]
	c.log.add(J{"e": "Fed", "n": n})
	return n, nil
}

func (c *scriptedConn) readsStarted() int64 {
	c.mu.Lock()
	defer c.mu.Unlock()
	return c.reads
}

func (c *scriptedConn) Write(p []byte) (int, error) {
	select {
	case <-c.closedCh: // the stream closed the connection (shutdown): nothing can be written any more
		c.log.add(J{"e": "WClosed"})
		return 0, net.ErrClosed
	default:
	}
	c.wmu.Lock()
	c.inWrite++
	if c.inWrite > 1 {
		c.overlap++
	}
	c.wmu.Unlock()
	if c.writeDelay > 0 {
		time.Sleep(c.writeDelay)
	}
	if c.wbudget > 0 {
		// a writer that keeps writing (far more than was submitted) is cut off: the log stays finite and the judge sees "Overrun"
		c.wmu.Lock()
		c.written += int64(len(p))
		over, first := c.written > c.wbudget, !c.overrun
		if over {
			c.overrun = true
		}
		c.inWrite--
		c.wmu.Unlock()
		if over {
			if first {
				c.log.add(J{"e": "Overrun", "written": int(c.written)})
				close(c.overrunCh)
			}
			select {} // (an error return would make the library exit the process: log.Fatalf in outbound())
		}
		c.wmu.Lock()
		c.inWrite++
		if c.faultAt > 0 && !c.faulted && c.written >= c.faultAt && len(p) >= 2 {
			// the peer stalls inside this frame: part of it is accepted, then the write deadline lapses
			k := len(p) - int(c.written-c.faultAt) - 1
			if k < 1 {
				k = 1
			}
			if k >= len(p) {
				k = len(p) - 1
			}
			c.faulted = true
			c.written -= int64(len(p) - k)
			c.inWrite--
			c.wmu.Unlock()
			c.log.add(J{"e": "W", "b": byteList(p[:k])})
			c.log.add(J{"e": "WFault", "n": k, "of": len(p)})
			close(c.faultCh)
			return k, timeoutErr{}
		}
		c.wmu.Unlock()
	}
	c.log.add(J{"e": "W", "b": byteList(p)})
	c.wmu.Lock()
	c.inWrite--
	c.wmu.Unlock()
	return len(p), nil
}

func (c *scriptedConn) Close() error {
	c.once.Do(func() {
		c.log.add(J{"e": "Closed"})
		close(c.closedCh)
	})
	return nil
}
func (c *scriptedConn) LocalAddr() net.Addr                { return addr{} }
func (c *scriptedConn) RemoteAddr() net.Addr               { return addr{} }
func (c *scriptedConn) SetDeadline(t time.Time) error      { return nil }
func (c *scriptedConn) SetReadDeadline(t time.Time) error  { return nil }
func (c *scriptedConn) SetWriteDeadline(t time.Time) error { return nil }

// gatingParser wraps the real parser; every call is logged and can be held.
type gatingParser struct {
	log    *evlog
	mu     sync.Mutex
	calls  int
	gating bool
	held   []chan struct{} // release channels of calls currently held, oldest first
	begun  chan struct{}   // signalled (non-blocking) on every ParseBegin
}

func (g *gatingParser) Parse(b []byte) (util.Message, error) {
	g.mu.Lock()
	g.calls++
	c := g.calls
	var rel chan struct{}
	if g.gating {
		rel = make(chan struct{})
		g.held = append(g.held, rel)
	}
	g.log.add(J{"e": "PB", "c": c, "b": byteList(b)})
	g.mu.Unlock()
	select {
	case g.begun <- struct{}{}:
	default:
	}
	if rel != nil {
		<-rel
	}
	var msg util.Message
	var err error
	p, _ := guard(func() { msg, err = of.Parse(b) })
	ev := J{"e": "PE", "c": c}
	if p != nil {
		ev["panic"] = p
		err = errors.New("panic in Parse")
	}
	if err != nil {
		ev["err"] = true
	}
	g.log.add(ev)
	return msg, err
}

func (g *gatingParser) release(j int) bool {
	g.mu.Lock()
	defer g.mu.Unlock()
	if len(g.held) == 0 {
		return false
	}
	j = j % len(g.held)
	close(g.held[j])
	g.held = append(g.held[:j], g.held[j+1:]...)
	return true
}

func (g *gatingParser) openGates() {
	g.mu.Lock()
	g.gating = false
	for _, r := range g.held {
		close(r)
	}
	g.held = nil
	g.mu.Unlock()
}

// buildFrame makes a real, parseable, round-tripping OpenFlow message of (about) the requested size.
func buildFrame(kind string, size int, xid uint32, rnd *rand.Rand) []byte {
	var m util.Message
	switch kind {
	case "echo":
		h := of.NewEchoRequest()
		h.Xid = xid
		m = h
	case "barrier":
		h := of.NewOfp13Header()
		h.Type = of.Type_BarrierReply
		h.Xid = xid
		m = &h
	case "hello":
		h, _ := common.NewHello(4)
		h.Xid = xid
		m = h
	case "flowmod":
		f := of.NewFlowMod()
		f.Xid = xid
		f.Cookie = rnd.Uint64()
		f.Match.AddField(*of.NewInPortField(rnd.Uint32()))
		f.Match.AddField(*of.NewEthTypeField(0x0800))
		ip := net.IPv4(10, byte(rnd.Intn(256)), byte(rnd.Intn(256)), byte(rnd.Intn(256)))
		f.Match.AddField(*of.NewIpv4SrcField(ip, nil))
		ins := of.NewInstrApplyActions()
		for i := 0; i < (size-80)/16 && i < 200; i++ {
			ins.AddAction(of.NewActionOutput(rnd.Uint32()), false)
		}
		f.AddInstruction(ins)
		f.AddInstruction(of.NewInstrGotoTable(uint8(rnd.Intn(250))))
		m = f
	case "packetin": // Ethernet / IPv4 / UDP carried in a packet-in: nested decoders copy out of the pooled buffer
		pi := of.NewPacketIn()
		pi.Xid = xid
		pi.BufferId = 0xffffffff
		pi.Reason = 1
		pi.Cookie = rnd.Uint64()
		pi.Match.AddField(*of.NewInPortField(rnd.Uint32()))
		udp := protocol.NewUDP()
		udp.PortSrc, udp.PortDst = uint16(rnd.Intn(65536)), uint16(rnd.Intn(65536))
		n := size - 90
		if n < 4 {
			n = 4
		}
		udp.Data = make([]byte, n)
		rnd.Read(udp.Data)
		udp.Length = udp.Len()
		ip := protocol.NewIPv4()
		ip.Version, ip.IHL, ip.Protocol, ip.TTL = 4, 5, 17, 64
		ip.NWSrc, ip.NWDst = net.IPv4(10, 1, byte(rnd.Intn(256)), 1).To4(), net.IPv4(10, 2, byte(rnd.Intn(256)), 2).To4()
		ip.Data = udp
		ip.Length = ip.Len()
		eth := protocol.NewEthernet()
		eth.HWDst, eth.HWSrc = net.HardwareAddr{2, 0, 0, 0, 0, byte(rnd.Intn(256))}, net.HardwareAddr{2, 0, 0, 0, 1, byte(rnd.Intn(256))}
		eth.Ethertype = 0x0800
		eth.Data = ip
		pi.Data = *eth
		pi.TotalLen = eth.Len()
		pi.Header.Length = pi.Len()
		m = pi
	default: // "error": an error message carrying size-12 bytes of data
		e := of.NewErrorMsg()
		e.Header = of.NewOfp13Header()
		e.Header.Type = of.Type_Error
		e.Header.Xid = xid
		e.Type = uint16(rnd.Intn(14))
		e.Code = uint16(rnd.Intn(16))
		n := size - 12
		if n < 0 {
			n = 0
		}
		d := make([]byte, n)
		rnd.Read(d)
		e.Data = *util.NewBuffer(d)
		e.Header.Length = e.Len()
		m = e
	}
	b, _ := m.MarshalBinary()
	return append([]byte(nil), b...)
}

func streamInCmd(args []string) error {
	in, out, err := ioFlags("stream-in", args, nil)
	if err != nil {
		return err
	}
	return eachLine(in, out, func(n int, sc J) J {
		sc["obs"] = runStreamIn(sc)
		return sc
	})
}

func waitSig(ch chan struct{}, d time.Duration) bool {
	select {
	case <-ch:
		return true
	case <-time.After(d):
		return false
	}
}

func runStreamIn(sc J) J {
	obs := J{}
	seed := int64(toInt(sc["seed"]))
	rnd := rand.New(rand.NewSource(seed))
	if mp, ok := sc["maxprocs"]; ok && toInt(mp) > 0 {
		defer runtime.GOMAXPROCS(runtime.GOMAXPROCS(toInt(mp)))
	}
	// frames
	var frames [][]byte
	var wire []byte
	for i, f := range sc["frames"].([]interface{}) {
		fr := f.([]interface{})
		b := buildFrame(fr[0].(string), toInt(fr[1]), uint32(i+1), rnd)
		frames = append(frames, b)
		wire = append(wire, b...)
	}
	fl := make([][]int, len(frames))
	for i := range frames {
		fl[i] = byteList(frames[i])
	}
	obs["frames"] = fl
	// a trailing incomplete frame: the first `partial` bytes of one more frame
	if p, ok := sc["partial"]; ok && toInt(p) > 0 {
		extra := buildFrame("error", 64, 0xfffffff0, rnd)
		k := toInt(p)
		if k > len(extra)-1 {
			k = len(extra) - 1
		}
		wire = append(wire, extra[:k]...)
	}
	obs["wirelen"] = len(wire)

	lg := &evlog{last: time.Now()}
	conn := newScriptedConn(lg)
	conn.failEOF = sc["failEOF"] == true
	gp := &gatingParser{log: lg, begun: make(chan struct{}, 1)}
	cmds, _ := sc["sched"].([]interface{})
	gp.gating = len(cmds) > 0 && sc["gate"] != false
	stream := util.NewMessageStream(conn, gp)

	// consumer: receives only when told (tokens) or freely
	recvTok := make(chan struct{}, 1<<16)
	free := make(chan struct{})
	var delivered []util.Message
	var dmu sync.Mutex
	consumerDone := make(chan struct{})
	stopConsumer := make(chan struct{})
	recvOne := func(m util.Message) {
		ev := J{"e": "Recv"}
		if m == nil || isNilMsg(m) {
			ev["nil"] = true
		} else {
			p, _ := guard(func() {
				b, _ := m.MarshalBinary()
				ev["b"] = byteList(b)
			})
			if p != nil {
				ev["panic"] = p
			}
		}
		dmu.Lock()
		delivered = append(delivered, m)
		dmu.Unlock()
		lg.add(ev)
	}
	go func() {
		defer close(consumerDone)
		for {
			select {
			case <-stopConsumer:
				return
			case e := <-stream.Error:
				_ = e
				lg.add(J{"e": "Err"})
			case <-recvTok:
				select {
				case m := <-stream.Inbound:
					recvOne(m)
				case <-time.After(50 * time.Millisecond):
				case <-stopConsumer:
					return
				}
			case <-free:
				for {
					select {
					case m := <-stream.Inbound:
						recvOne(m)
					case <-stream.Error:
						lg.add(J{"e": "Err"})
					case <-stopConsumer:
						return
					}
				}
			}
		}
	}()

	pos := 0
	failed, shut := false, false
	feedN := func(k int) {
		if k > len(wire)-pos {
			k = len(wire) - pos
		}
		if k <= 0 {
			return
		}
		before := conn.readsStarted()
		conn.feed <- append([]byte(nil), wire[pos:pos+k]...)
		pos += k
		// best effort: wait until the reader came back for more (or is blocked elsewhere)
		deadline := time.Now().Add(30 * time.Millisecond)
		for conn.readsStarted() <= before && time.Now().Before(deadline) {
			waitSig(conn.readWait, 2*time.Millisecond)
		}
	}
	diverged := 0
	for _, c := range cmds {
		cmd := c.([]interface{})
		switch cmd[0].(string) {
		case "F":
			if !failed && !shut {
				feedN(toInt(cmd[1]))
			}
		case "P":
			if !gp.release(toInt(cmd[1])) {
				if waitSig(gp.begun, 20*time.Millisecond) {
					gp.release(toInt(cmd[1]))
				} else {
					diverged++
				}
			}
		case "R":
			recvTok <- struct{}{}
			time.Sleep(200 * time.Microsecond)
		case "X":
			if !failed && !shut {
				failed = true
				conn.fail <- struct{}{}
			}
		case "S":
			if !failed && !shut {
				shut = true
				lg.add(J{"e": "AppShutdown"})
				stream.Shutdown <- true
			}
		case "Z":
			time.Sleep(time.Duration(toInt(cmd[1])) * time.Microsecond)
		}
	}
	// drain: open all gates, feed the rest in the scripted chunks, consumer runs freely
	gp.openGates()
	close(free)
	if !failed && !shut {
		chunks, _ := sc["chunks"].([]interface{})
		ci := 0
		for pos < len(wire) {
			k := len(wire) - pos
			if ci < len(chunks) {
				k = toInt(chunks[ci])
				ci++
			} else if k > 1500 {
				k = 1 + rnd.Intn(1500)
			}
			feedN(k)
		}
		if fa, ok := sc["failAtEnd"]; ok && fa == true {
			failed = true
			conn.fail <- struct{}{}
		}
	}
	// wait for quiescence
	idle := 8 * time.Second
	want := len(frames)
	timeout := false
	start := time.Now()
	for {
		dmu.Lock()
		got := len(delivered)
		dmu.Unlock()
		if !failed && !shut && got >= want {
			time.Sleep(20 * time.Millisecond) // anything extra would be an invention
			break
		}
		if (failed || shut) && lg.idleFor() > 400*time.Millisecond {
			break
		}
		if lg.idleFor() > idle || time.Since(start) > 120*time.Second {
			timeout = true
			break
		}
		time.Sleep(2 * time.Millisecond)
	}
	if failed {
		// give a second error a chance to show up (can only miss, never invent)
		time.Sleep(50 * time.Millisecond)
	}
	// final observation of everything delivered: still intact after later frames were received
	dmu.Lock()
	for j, m := range delivered {
		ev := J{"e": "Final", "j": j + 1}
		if m == nil || isNilMsg(m) {
			ev["nil"] = true
		} else {
			p, _ := guard(func() {
				b, _ := m.MarshalBinary()
				ev["b"] = byteList(b)
			})
			if p != nil {
				ev["panic"] = p
			}
		}
		lg.add(ev)
	}
	dmu.Unlock()
	lg.add(J{"e": "End", "timeout": timeout, "failed": failed, "shut": shut})
	lg.mu.Lock()
	lg.closed = true
	evs := lg.events
	lg.mu.Unlock()
	// tear down
	close(stopConsumer)
	if !failed && !shut {
		select {
		case stream.Shutdown <- true:
		default:
		}
	}
	go func() { // unblock parsers stuck on Inbound
		for {
			select {
			case <-stream.Inbound:
			case <-time.After(200 * time.Millisecond):
				return
			}
		}
	}()
	obs["events"] = evs
	obs["diverged"] = diverged
	return obs
}

func isNilMsg(m util.Message) bool {
	defer func() { recover() }()
	switch v := m.(type) {
	case *common.Header:
		return v == nil
	case *of.ErrorMsg:
		return v == nil
	case *of.FlowMod:
		return v == nil
	case *common.Hello:
		return v == nil
	}
	return false
}

// ---------------------------------------------------------------- outbound

func streamOutCmd(args []string) error {
	in, out, err := ioFlags("stream-out", args, nil)
	if err != nil {
		return err
	}
	return eachLine(in, out, func(n int, sc J) J {
		sc["obs"] = runStreamOut(sc)
		return sc
	})
}

type outMsg struct {
	b []byte
}

func (m *outMsg) Len() uint16                       { return uint16(len(m.b)) }
func (m *outMsg) MarshalBinary() ([]byte, error)    { return m.b, nil }
func (m *outMsg) UnmarshalBinary(data []byte) error { return nil }

// slowMsg delays the encoding of a message (widens the window between taking a message off Outbound and writing it).
type slowMsg struct {
	util.Message
	d time.Duration
}

func (m *slowMsg) MarshalBinary() ([]byte, error) {
	time.Sleep(m.d)
	return m.Message.MarshalBinary()
}

func runStreamOut(sc J) J {
	obs := J{}
	seed := int64(toInt(sc["seed"]))
	if mp, ok := sc["maxprocs"]; ok && toInt(mp) > 0 {
		defer runtime.GOMAXPROCS(runtime.GOMAXPROCS(toInt(mp)))
	}
	P, per := toInt(sc["producers"]), toInt(sc["per"])
	sizes := sc["sizes"].([]interface{})
	kinds := []string{"error", "echo", "flowmod", "error", "hello", "error"}
	lg := &evlog{last: time.Now()}
	conn := newScriptedConn(lg)
	conn.writeDelay = time.Duration(toInt(sc["writeDelayUs"])) * time.Microsecond
	gp := &gatingParser{log: lg, begun: make(chan struct{}, 1)}
	stream := util.NewMessageStream(conn, gp)
	// messages are real library messages, encoded by the stream's writer itself
	msgs := make([][]util.Message, P)
	encs := make([][][]int, P)
	total := 0
	for p := 0; p < P; p++ {
		rnd := rand.New(rand.NewSource(seed*1000 + int64(p)))
		for i := 0; i < per; i++ {
			sz := toInt(sizes[(p*7+i)%len(sizes)])
			kind := kinds[(p+i)%len(kinds)]
			if sz > 200 {
				kind = "error"
			}
			b := buildFrame(kind, sz, uint32((p+1)<<16|(i+1)), rnd)
			m, err := of.Parse(b)
			if err != nil || m == nil {
				m = &outMsg{b: b}
			}
			if se := toIntOr(sc["slowEvery"], 0); se > 0 && (i+1)%se == 0 {
				m = &slowMsg{Message: m, d: time.Duration(toIntOr(sc["slowUs"], 500)) * time.Microsecond}
			}
			msgs[p] = append(msgs[p], m)
			encs[p] = append(encs[p], byteList(b))
			total += len(b)
		}
	}
	obs["msgs"] = encs
	conn.wbudget = 2*int64(total) + 1<<20
	if sa := toIntOr(sc["shutdownAfter"], 0); sa > 0 {
		// the application shuts the stream down while producers are still submitting
		log.StandardLogger().ExitFunc = func(int) { lg.add(J{"e": "Exit"}); runtime.Goexit() }
		go func() {
			for {
				lg.mu.Lock()
				n := 0
				for _, e := range lg.events {
					if e["e"] == "SE" {
						n++
					}
				}
				lg.mu.Unlock()
				if n >= sa {
					break
				}
				time.Sleep(50 * time.Microsecond)
			}
			lg.add(J{"e": "Shutdown"})
			stream.Shutdown <- true
		}()
	}
	if v, ok := sc["writeFaultAt"]; ok && toInt(v) > 0 {
		fa := toInt(v)
		conn.faultAt = int64(fa)
		// the library answers a write error with log.Fatalf, i.e. the process ends there.  To judge what reached the wire, the exit is
		// replaced by the end of the calling goroutine (the writer): like the process, it executes nothing after the fatal log call
		log.StandardLogger().ExitFunc = func(int) { lg.add(J{"e": "Exit"}); runtime.Goexit() }
	}
	var wg sync.WaitGroup
	start := make(chan struct{})
	for p := 0; p < P; p++ {
		wg.Add(1)
		go func(p int) {
			defer wg.Done()
			rnd := rand.New(rand.NewSource(seed*77 + int64(p)))
			<-start
			for i, m := range msgs[p] {
				lg.add(J{"e": "SB", "p": p + 1, "i": i + 1})
				stream.Outbound <- m
				lg.add(J{"e": "SE", "p": p + 1, "i": i + 1})
				if rnd.Intn(4) == 0 {
					runtime.Gosched()
				}
			}
		}(p)
	}
	close(start)
	done := make(chan struct{})
	go func() { wg.Wait(); close(done) }()
	timeout := false
	select {
	case <-done:
	case <-conn.faultCh:
		// after the fault the writer may have stopped (producers then block for ever) or may carry on: wait for either
		select {
		case <-done:
		case <-conn.overrunCh:
		case <-time.After(1500 * time.Millisecond):
		}
		for lg.idleFor() < 300*time.Millisecond {
			time.Sleep(5 * time.Millisecond)
		}
		timeout = true
	case <-conn.overrunCh:
		timeout = true
	case <-time.After(120 * time.Second):
		timeout = true
	}
	// wait until the wire is quiet
	for !timeout && lg.idleFor() < 300*time.Millisecond {
		time.Sleep(5 * time.Millisecond)
	}
	lg.add(J{"e": "End", "timeout": timeout})
	lg.mu.Lock()
	lg.closed = true
	evs := lg.events
	lg.mu.Unlock()
	conn.wmu.Lock()
	obs["overlappingWrites"] = conn.overlap
	conn.wmu.Unlock()
	obs["events"] = evs
	obs["total"] = total
	select {
	case stream.Shutdown <- true:
	default:
	}
	return obs
}

func toIntOr(v interface{}, d int) int {
	if v == nil {
		return d
	}
	return toInt(v)
}
