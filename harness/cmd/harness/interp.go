package main

// Reflective interpreter: executes scenario ops (new / set / call) on the real
// API and records observations (len / marshal results, recovered panics).  It
// knows which Go constructor a name denotes and how to convert JSON values to
// the parameter types; it knows nothing about wire layouts or expected values.

import (
	"bytes"
	"encoding/binary"
	"fmt"
	"net"
	"reflect"
	"strings"

	"github.com/contiv/libOpenflow/common"
	of "github.com/contiv/libOpenflow/openflow13"
	"github.com/contiv/libOpenflow/protocol"
	"github.com/contiv/libOpenflow/util"
)

var ctors = map[string]interface{}{
	// common
	"NewHello": common.NewHello, "NewHelloElemVersionBitmap": common.NewHelloElemVersionBitmap,
	"NewHelloElemHeader": common.NewHelloElemHeader,
	// messages
	"NewOfp13Header": of.NewOfp13Header, "NewEchoRequest": of.NewEchoRequest, "NewEchoReply": of.NewEchoReply,
	"NewFeaturesRequest": of.NewFeaturesRequest, "NewConfigRequest": of.NewConfigRequest, "NewSetConfig": of.NewSetConfig,
	"NewFlowMod": of.NewFlowMod, "NewGroupMod": of.NewGroupMod, "NewBucket": of.NewBucket, "NewPacketOut": of.NewPacketOut,
	"NewPortMod": of.NewPortMod, "NewPacketIn": of.NewPacketIn, "NewErrorMsg": of.NewErrorMsg, "NewFeaturesReply": of.NewFeaturesReply,
	"NewFlowRemoved": of.NewFlowRemoved, "NewPhyPort": of.NewPhyPort, "NewPortStatus": of.NewPortStatus,
	"NewDescStats": of.NewDescStats, "NewFlowStatsRequest": of.NewFlowStatsRequest, "NewFlowStats": of.NewFlowStats,
	"NewAggregateStatsRequest": of.NewAggregateStatsRequest, "NewAggregateStats": of.NewAggregateStats,
	"NewTableStats": of.NewTableStats, "NewPortStatsRequest": of.NewPortStatsRequest, "NewPortStats": of.NewPortStats,
	"NewQueueStatsRequest": of.NewQueueStatsRequest,
	"NewNXTVendorHeader":   of.NewNXTVendorHeader, "NewSetControllerID": of.NewSetControllerID, "NewTLVTableMod": of.NewTLVTableMod,
	"NewTLVTableModMessage": of.NewTLVTableModMessage, "NewTLVTableRequest": of.NewTLVTableRequest,
	"NewBundleControl": of.NewBundleControl, "NewBundleAdd": of.NewBundleAdd, "NewBundlePropertyExperimenter": of.NewBundlePropertyExperimenter,
	"NewBundleError": of.NewBundleError,
	// match
	"NewMatch": of.NewMatch, "NewInPortField": of.NewInPortField, "NewEthDstField": of.NewEthDstField, "NewEthSrcField": of.NewEthSrcField,
	"NewEthTypeField": of.NewEthTypeField, "NewVlanIdField": of.NewVlanIdField, "NewMplsLabelField": of.NewMplsLabelField,
	"NewMplsBosField": of.NewMplsBosField, "NewIpv4SrcField": of.NewIpv4SrcField, "NewIpv4DstField": of.NewIpv4DstField,
	"NewIpv6SrcField": of.NewIpv6SrcField, "NewIpv6DstField": of.NewIpv6DstField, "NewIPV6FlowLabelField": of.NewIPV6FlowLabelField,
	"NewIpProtoField": of.NewIpProtoField, "NewIpDscpField": of.NewIpDscpField, "NewTunnelIdField": of.NewTunnelIdField,
	"NewMetadataField": of.NewMetadataField, "NewTcpSrcField": of.NewTcpSrcField, "NewTcpDstField": of.NewTcpDstField,
	"NewUdpSrcField": of.NewUdpSrcField, "NewUdpDstField": of.NewUdpDstField, "NewTcpFlagsField": of.NewTcpFlagsField,
	"NewArpOperField": of.NewArpOperField, "NewTunnelIpv4SrcField": of.NewTunnelIpv4SrcField,
	"NewTunnelIpv4DstField": of.NewTunnelIpv4DstField, "NewSctpDstField": of.NewSctpDstField, "NewSctpSrcField": of.NewSctpSrcField,
	"NewArpThaField": of.NewArpThaField, "NewArpShaField": of.NewArpShaField, "NewArpTpaField": of.NewArpTpaField,
	"NewArpSpaField": of.NewArpSpaField, "NewActsetOutputField": of.NewActsetOutputField, "NewIcmpCodeField": of.NewIcmpCodeField,
	"NewIcmpTypeField": of.NewIcmpTypeField,
	"NewMatchFieldU64": func(name string, v uint64, win ...int) (*of.MatchField, error) {
		return of.NewMatchField[uint64, int](name, v, win...)
	},
	"NewRegMatchField": of.NewRegMatchField, "NewTunMetadataField": of.NewTunMetadataField, "NewCTStates": of.NewCTStates,
	"NewCTStateMatchField": of.NewCTStateMatchField, "NewCTZoneMatchField": of.NewCTZoneMatchField,
	"NewCTMarkMatchField": of.NewCTMarkMatchField, "NewCTLabelMatchField": of.NewCTLabelMatchField,
	"NewConjIDMatchField": of.NewConjIDMatchField, "NewNxARPShaMatchField": of.NewNxARPShaMatchField,
	"NewNxARPThaMatchField": of.NewNxARPThaMatchField, "NewNxARPSpaMatchField": of.NewNxARPSpaMatchField,
	"NewNxARPTpaMatchField": of.NewNxARPTpaMatchField, "FindFieldHeaderByName": of.FindFieldHeaderByName,
	"NewNXRange": of.NewNXRange, "NewNXRangeByOfsNBits": of.NewNXRangeByOfsNBits,
	// instructions, actions
	"NewInstrGotoTable": of.NewInstrGotoTable, "NewInstrWriteMetadata": of.NewInstrWriteMetadata,
	"NewInstrWriteActions": of.NewInstrWriteActions, "NewInstrApplyActions": of.NewInstrApplyActions,
	"NewActionOutput": of.NewActionOutput, "NewActionSetQueue": of.NewActionSetQueue, "NewActionGroup": of.NewActionGroup,
	"NewActionDecNwTtl": of.NewActionDecNwTtl, "NewActionPushVlan": of.NewActionPushVlan, "NewActionPushMpls": of.NewActionPushMpls,
	"NewActionPopVlan": of.NewActionPopVlan, "NewActionPopMpls": of.NewActionPopMpls, "NewActionSetField": of.NewActionSetField,
	// nicira
	"NewNXActionConjunction": of.NewNXActionConjunction, "NewNXActionConnTrack": of.NewNXActionConnTrack,
	"NewNXActionRegLoad": of.NewNXActionRegLoad, "NewNXActionRegMove": of.NewNXActionRegMove, "NewNXActionResubmit": of.NewNXActionResubmit,
	"NewNXActionResubmitTableAction": of.NewNXActionResubmitTableAction, "NewNXActionResubmitTableCT": of.NewNXActionResubmitTableCT,
	"NewNXActionResubmitTableCTNoInPort": of.NewNXActionResubmitTableCTNoInPort, "NewNXActionCTNAT": of.NewNXActionCTNAT,
	"NewOutputFromField": of.NewOutputFromField, "NewOutputFromFieldWithMaxLen": of.NewOutputFromFieldWithMaxLen,
	"NewNXActionCTClear": of.NewNXActionCTClear, "NewNXActionDecTTL": of.NewNXActionDecTTL, "NewNXActionDecTTLCntIDs": of.NewNXActionDecTTLCntIDs,
	"NewLearnHeaderMatchFromValue": of.NewLearnHeaderMatchFromValue, "NewLearnHeaderMatchFromField": of.NewLearnHeaderMatchFromField,
	"NewLearnHeaderLoadFromValue": of.NewLearnHeaderLoadFromValue, "NewLearnHeaderLoadFromField": of.NewLearnHeaderLoadFromField,
	"NewLearnHeaderOutputFromField": of.NewLearnHeaderOutputFromField, "NewNXActionLearn": of.NewNXActionLearn,
	"NewNXActionNote": of.NewNXActionNote, "NewNXActionRegLoad2": of.NewNXActionRegLoad2, "NewNXActionController": of.NewNXActionController,
	// packet headers
	"NewEthernet": protocol.NewEthernet, "NewVLAN": protocol.NewVLAN, "NewARP": protocol.NewARP, "NewIPv4": protocol.NewIPv4,
	"NewICMP": protocol.NewICMP, "NewTCP": protocol.NewTCP, "NewUDP": protocol.NewUDP, "NewHopByHopHeader": protocol.NewHopByHopHeader,
	"NewRoutingHeader": protocol.NewRoutingHeader, "NewFragmentHeader": protocol.NewFragmentHeader,
	"NewIGMPv1Query": protocol.NewIGMPv1Query, "NewIGMPv1Report": protocol.NewIGMPv1Report, "NewIGMPv2Query": protocol.NewIGMPv2Query,
	"NewIGMPv2Report": protocol.NewIGMPv2Report, "NewIGMPv2Leave": protocol.NewIGMPv2Leave, "NewIGMPv3Query": protocol.NewIGMPv3Query,
	"NewGroupRecord": protocol.NewGroupRecord, "NewIGMPv3Report": protocol.NewIGMPv3Report,
	"NewDHCP": protocol.NewDHCP, "NewDHCPDiscover": protocol.NewDHCPDiscover, "NewDHCPOffer": protocol.NewDHCPOffer,
	"NewDHCPRequest": protocol.NewDHCPRequest, "NewDHCPAck": protocol.NewDHCPAck, "NewDHCPNak": protocol.NewDHCPNak,
	"NewBuffer": util.NewBuffer, "DHCPNewOption": protocol.DHCPNewOption,
}

// zero values of types that have no constructor (built as literals by callers)
var zeroTypes = map[string]func() interface{}{
	"MultipartRequest":           func() interface{} { return &of.MultipartRequest{} },
	"MultipartReply":             func() interface{} { return &of.MultipartReply{} },
	"BundleControl":              func() interface{} { return &of.BundleControl{} },
	"BundleAdd":                  func() interface{} { return &of.BundleAdd{} },
	"TLVTableMap":                func() interface{} { return &of.TLVTableMap{} },
	"TLVTableMod":                func() interface{} { return &of.TLVTableMod{} },
	"TLVTableReply":              func() interface{} { return &of.TLVTableReply{} },
	"ControllerID":               func() interface{} { return &of.ControllerID{} },
	"VendorHeader":               func() interface{} { return &of.VendorHeader{} },
	"VendorError":                func() interface{} { return &of.VendorError{} },
	"NXLearnSpec":                func() interface{} { return &of.NXLearnSpec{} },
	"NXLearnSpecField":           func() interface{} { return &of.NXLearnSpecField{} },
	"SwitchConfig":               func() interface{} { return &of.SwitchConfig{} },
	"QueueStats":                 func() interface{} { return &of.QueueStats{} },
	"Header":                     func() interface{} { return &common.Header{} },
	"IPv6":                       func() interface{} { return &protocol.IPv6{} },
	"Option":                     func() interface{} { return &protocol.Option{} },
	"IGMPv3GroupRecord":          func() interface{} { return &protocol.IGMPv3GroupRecord{} },
	"IGMPv1or2":                  func() interface{} { return &protocol.IGMPv1or2{} },
	"PortTLV":                    func() interface{} { return &protocol.PortTLV{} },
	"ChassisTLV":                 func() interface{} { return &protocol.ChassisTLV{} },
	"TTLTLV":                     func() interface{} { return &protocol.TTLTLV{} },
	"LLDP":                       func() interface{} { return &protocol.LLDP{} },
	"BundlePropertyExperimenter": func() interface{} { return &of.BundlePropertyExperimenter{} },
}

// readWriter: the Read/Write style codecs of protocol/dhcp.go and protocol/lldp.go (Read = encode into b, Write = decode from b).
type readWriter interface {
	Read(b []byte) (int, error)
	Write(b []byte) (int, error)
}

// rwAdapter presents such a codec as a util.Message.
type rwAdapter struct{ v readWriter }

func (a *rwAdapter) Inner() interface{} { return a.v }
func (a *rwAdapter) MarshalBinary() ([]byte, error) {
	buf := make([]byte, 8192)
	n, err := a.v.Read(buf)
	return buf[:n], err
}
func (a *rwAdapter) UnmarshalBinary(b []byte) error {
	_, err := a.v.Write(b)
	return err
}
func (a *rwAdapter) Len() uint16 {
	if l, ok := a.v.(interface{ Len() uint16 }); ok {
		return l.Len()
	}
	b, _ := a.MarshalBinary()
	return uint16(len(b))
}

type interp struct {
	objs map[string]reflect.Value
	// every byte string an encoder handed out, with a private copy taken at that moment: compared again at the end of the scenario
	handed [][2][]byte
}

func newInterp() *interp { return &interp{objs: map[string]reflect.Value{}} }

func beUint(b []byte) uint64 {
	var u uint64
	for _, x := range b {
		u = u<<8 | uint64(x)
	}
	return u
}

// conv converts a JSON value to a reflect.Value of type t.
func (ip *interp) conv(v interface{}, t reflect.Type) reflect.Value {
	if m, ok := v.(map[string]interface{}); ok {
		if name, ok := m["ref"]; ok {
			o, ok := ip.objs[name.(string)]
			if !ok {
				panic("interp: unknown object " + name.(string))
			}
			if o.Type().AssignableTo(t) {
				return o
			}
			if o.Kind() == reflect.Ptr && o.Elem().Type().AssignableTo(t) {
				return o.Elem()
			}
			if o.CanAddr() && o.Addr().Type().AssignableTo(t) {
				return o.Addr()
			}
			if t.Kind() == reflect.Interface && o.Type().Implements(t) {
				return o
			}
			panic(fmt.Sprintf("interp: object %s of type %s is not assignable to %s", name, o.Type(), t))
		}
	}
	if v == nil {
		return reflect.Zero(t)
	}
	if sv, ok := v.(string); ok && sv == "nil" && t.Kind() != reflect.String {
		return reflect.Zero(t)
	}
	switch t.Kind() {
	case reflect.Bool:
		return reflect.ValueOf(v.(bool)).Convert(t)
	case reflect.String:
		return reflect.ValueOf(v.(string)).Convert(t)
	case reflect.Uint8, reflect.Uint16, reflect.Uint32, reflect.Uint64, reflect.Uint:
		var u uint64
		if arr, ok := v.([]interface{}); ok {
			u = beUint(toBytes(arr))
		} else {
			u = toU64(v)
		}
		r := reflect.New(t).Elem()
		r.SetUint(u)
		return r
	case reflect.Int, reflect.Int8, reflect.Int16, reflect.Int32, reflect.Int64:
		r := reflect.New(t).Elem()
		if arr, ok := v.([]interface{}); ok {
			r.SetInt(int64(beUint(toBytes(arr))))
		} else {
			r.SetInt(int64(toInt(v)))
		}
		return r
	case reflect.Slice:
		arr := v.([]interface{})
		if t.Elem().Kind() == reflect.Uint8 {
			return reflect.ValueOf(toBytes(arr)).Convert(t)
		}
		r := reflect.MakeSlice(t, len(arr), len(arr))
		for i, x := range arr {
			r.Index(i).Set(ip.conv(x, t.Elem()))
		}
		return r
	case reflect.Array:
		b := toBytes(v)
		r := reflect.New(t).Elem()
		for i := 0; i < t.Len() && i < len(b); i++ {
			r.Index(i).SetUint(uint64(b[i]))
		}
		return r
	case reflect.Struct:
		if t == reflect.TypeOf(util.Buffer{}) {
			return reflect.ValueOf(util.NewBuffer(toBytes(v))).Elem()
		}
	case reflect.Ptr:
		inner := ip.conv(v, t.Elem())
		p := reflect.New(t.Elem())
		p.Elem().Set(inner)
		return p
	case reflect.Interface:
		// a raw byte array for a util.Message: wrap it in a util.Buffer
		if arr, ok := v.([]interface{}); ok {
			buf := util.NewBuffer(toBytes(arr))
			return reflect.ValueOf(buf)
		}
	}
	panic(fmt.Sprintf("interp: cannot convert %v to %s", v, t))
}

// field resolves a dotted path of exported fields starting at object obj.
func (ip *interp) field(obj string, path string) reflect.Value {
	v, ok := ip.objs[obj]
	if !ok {
		panic("interp: unknown object " + obj)
	}
	if path == "" {
		return v
	}
	for _, f := range strings.Split(path, ".") {
		for v.Kind() == reflect.Ptr || v.Kind() == reflect.Interface {
			v = v.Elem()
		}
		v = v.FieldByName(f)
		if !v.IsValid() {
			panic("interp: no field " + f + " in " + obj)
		}
	}
	return v
}

func (ip *interp) callFn(fn reflect.Value, args []interface{}) []reflect.Value {
	ft := fn.Type()
	var in []reflect.Value
	for i, a := range args {
		var pt reflect.Type
		if ft.IsVariadic() && i >= ft.NumIn()-1 {
			pt = ft.In(ft.NumIn() - 1).Elem()
		} else {
			pt = ft.In(i)
		}
		in = append(in, ip.conv(a, pt))
	}
	return fn.Call(in)
}

// exec runs one op; the result (if any) is stored under op["as"].
func (ip *interp) exec(op J) {
	switch op["op"].(string) {
	case "new":
		as := op["as"].(string)
		if tn, ok := op["type"]; ok {
			mk, ok := zeroTypes[tn.(string)]
			if !ok {
				panic("interp: unknown type " + tn.(string))
			}
			ip.objs[as] = reflect.ValueOf(mk())
			return
		}
		fn, ok := ctors[op["ctor"].(string)]
		if !ok {
			panic("interp: unknown constructor " + op["ctor"].(string))
		}
		args, _ := op["args"].([]interface{})
		out := ip.callFn(reflect.ValueOf(fn), args)
		r := out[0]
		if r.Kind() != reflect.Ptr && r.Kind() != reflect.Interface {
			p := reflect.New(r.Type())
			p.Elem().Set(r)
			r = p
		}
		ip.objs[as] = r
	case "set":
		f := ip.field(op["obj"].(string), op["f"].(string))
		f.Set(ip.conv(op["val"], f.Type()))
	case "call":
		path, _ := op["path"].(string)
		recv := ip.field(op["obj"].(string), path)
		if recv.Kind() != reflect.Ptr && recv.Kind() != reflect.Interface && recv.CanAddr() {
			recv = recv.Addr()
		}
		m := recv.MethodByName(op["m"].(string))
		if !m.IsValid() {
			panic("interp: no method " + op["m"].(string) + " on " + recv.Type().String())
		}
		args, _ := op["args"].([]interface{})
		out := ip.callFn(m, args)
		if as, ok := op["as"]; ok && len(out) > 0 {
			ip.objs[as.(string)] = out[0]
		}
	case "obs":
		// an application sizes / encodes the value while it is still being built (C13: neither may disturb what a later
		// encoding produces); what the incomplete value answers is not judged, a panic on it is not an error of the scenario
		guard(func() {
			m := ip.message(op["obj"].(string))
			m.Len()
			m.MarshalBinary()
		})
	default:
		panic("interp: unknown op " + op["op"].(string))
	}
}

func (ip *interp) message(name string) util.Message {
	v, ok := ip.objs[name]
	if !ok {
		panic("interp: unknown object " + name)
	}
	if m, ok := v.Interface().(util.Message); ok {
		return m
	}
	if v.CanAddr() {
		if m, ok := v.Addr().Interface().(util.Message); ok {
			return m
		}
	}
	if rw, ok := v.Interface().(readWriter); ok {
		return &rwAdapter{v: rw}
	}
	panic("interp: " + name + " is not a util.Message: " + v.Type().String())
}

// observe performs one observer ("len" or "marshal") on an object.
func (ip *interp) observe(kind, name string) J {
	r := J{}
	p, where := guard(func() {
		m := ip.message(name)
		switch kind {
		case "len":
			r["len"] = int(m.Len())
		case "peek":
			// an application reads only the beginning of the encoding (Read-style codecs: a destination shorter than the value)
			if a, ok := m.(*rwAdapter); ok {
				buf := make([]byte, 16)
				n, _ := a.v.Read(buf)
				r["n"] = n
			} else {
				r["n"] = 0
			}
		case "marshal":
			b, err := m.MarshalBinary()
			r["bytes"] = byteList(b)
			ip.handed = append(ip.handed, [2][]byte{b, append([]byte(nil), b...)})
			if err != nil {
				r["err"] = true
			}
		}
	})
	if p != nil {
		r["panic"] = p
		r["where"] = where
	}
	return r
}

func init() { subcommands["build"] = buildCmd }

// buildCmd: scenario {ops, observe: [[kind, obj]...], kids: {obj: [child...]}}.
func buildCmd(args []string) error {
	in, out, err := ioFlags("build", args, nil)
	if err != nil {
		return err
	}
	return eachLine(in, out, func(n int, sc J) J {
		sc["obs"] = runBuild(sc)
		return sc
	})
}

func runBuild(sc J) J {
	obs := J{}
	ip := newInterp()
	ops, _ := sc["ops"].([]interface{})
	for i, o := range ops {
		p, where := guard(func() { ip.exec(o.(map[string]interface{})) })
		if p != nil {
			obs["panic"] = p
			obs["where"] = where
			obs["at"] = i + 1
			return obs
		}
	}
	var results []J
	if obsv, ok := sc["observe"].([]interface{}); ok {
		for _, x := range obsv {
			pair := x.([]interface{})
			results = append(results, ip.observe(pair[0].(string), pair[1].(string)))
		}
	}
	obs["results"] = results
	// an encoding that was handed out belongs to the caller: later size queries and encodings (of this or any other value) must not
	// change it (an encoder that recycles its output buffer would)
	clobbered := []int{}
	for i, h := range ip.handed {
		if !bytes.Equal(h[0], h[1]) {
			clobbered = append(clobbered, i+1)
		}
	}
	obs["clobbered"] = clobbered
	if kids, ok := sc["kids"].(map[string]interface{}); ok {
		kb := J{}
		for parent, list := range kids {
			var arr []J
			for _, k := range list.([]interface{}) {
				arr = append(arr, ip.observe("marshal", k.(string)))
			}
			kb[parent] = arr
		}
		obs["kidbytes"] = kb
	}
	return obs
}

var _ = binary.BigEndian
var _ = net.IPv4
