package main

// Decode-side subcommands: library round trip (C05), parsing of
// specification-made frames (C04), ownership of parsed messages (C12).

import (
	"bufio"
	"encoding/json"
	"os"
	"reflect"

	"github.com/contiv/libOpenflow/common"
	of "github.com/contiv/libOpenflow/openflow13"
	"github.com/contiv/libOpenflow/util"
)

func init() {
	subcommands["roundtrip"] = roundtripCmd
	subcommands["parse"] = parseCmd
}

// decodeAs decodes b with the decoder the library offers for the kind of orig.
// via: "parse" (dispatcher), "self" (a fresh value's own UnmarshalBinary), or an element decoder.
func decodeAs(orig util.Message, b []byte) (util.Message, string, error) {
	switch orig.(type) {
	case of.Action:
		if _, isInstr := orig.(of.Instruction); !isInstr {
			a, err := of.DecodeAction(b)
			if a == nil {
				return nil, "DecodeAction", err
			}
			return a, "DecodeAction", err
		}
	}
	if _, ok := orig.(of.Instruction); ok {
		i := of.DecodeInstr(b)
		if i == nil {
			return nil, "DecodeInstr", nil
		}
		return i, "DecodeInstr", nil
	}
	if a, ok := orig.(*rwAdapter); ok {
		fresh := &rwAdapter{v: reflect.New(reflect.TypeOf(a.v).Elem()).Interface().(readWriter)}
		err := fresh.UnmarshalBinary(b)
		return fresh, "Write", err
	}
	t := reflect.TypeOf(orig)
	if t.Kind() == reflect.Ptr {
		fresh := reflect.New(t.Elem()).Interface().(util.Message)
		// kinds whose constructor allocates fixed buffers are decoded into a constructed value, as a caller would
		switch orig.(type) {
		case *of.PortMod:
			fresh = of.NewPortMod(0)
		case *of.PhyPort:
			fresh = of.NewPhyPort()
		case *of.DescStats:
			fresh = of.NewDescStats()
		case *of.TableStats:
			fresh = of.NewTableStats()
		case *of.PortStats:
			fresh = of.NewPortStats()
		case *of.PortStatsRequest:
			fresh = of.NewPortStatsRequest()
		case *of.QueueStatsRequest:
			fresh = of.NewQueueStatsRequest()
		case *of.AggregateStats:
			fresh = of.NewAggregateStats()
		case *of.FlowStats:
			fresh = of.NewFlowStats()
		case *of.PortStatus:
			fresh = of.NewPortStatus()
		case *of.PacketOut:
			fresh = of.NewPacketOut()
		case *of.GroupMod:
			fresh = of.NewGroupMod()
		}
		err := fresh.UnmarshalBinary(b)
		return fresh, "self", err
	}
	return nil, "none", nil
}

func typeName(m util.Message) string {
	if a, ok := m.(*rwAdapter); ok {
		return reflect.TypeOf(a.v).String()
	}
	return reflect.TypeOf(m).String()
}

func isTopLevel(m util.Message) bool {
	switch m.(type) {
	case *common.Header, *common.Hello, *of.ErrorMsg, *of.VendorError, *of.VendorHeader, *of.SwitchFeatures, *of.SwitchConfig,
		*of.PacketIn, *of.PacketOut, *of.FlowMod, *of.FlowRemoved, *of.GroupMod, *of.PortMod, *of.PortStatus,
		*of.MultipartRequest, *of.MultipartReply:
		return true
	}
	return false
}

// roundtripCmd: scenario {ops, rt: [obj...], junk: [bytes]}.  For each object: encode, decode the encoding followed by
// `junk` (siblings), project both values, re-encode the decoded value.
func roundtripCmd(args []string) error {
	in, out, err := ioFlags("roundtrip", args, nil)
	if err != nil {
		return err
	}
	return eachLine(in, out, func(n int, sc J) J {
		obs := J{}
		sc["obs"] = obs
		skipLength = true
		defer func() { skipLength = false }()
		ip := newInterp()
		ops, _ := sc["ops"].([]interface{})
		for i, o := range ops {
			p, where := guard(func() { ip.exec(o.(map[string]interface{})) })
			if p != nil {
				obs["panic"], obs["where"], obs["at"] = p, where, i+1
				return sc
			}
		}
		junk := []byte{}
		if j, ok := sc["junk"]; ok {
			junk = toBytes(j)
		}
		var results []J
		for _, x := range sc["rt"].([]interface{}) {
			name := x.(string)
			r := J{"obj": name}
			p, where := guard(func() {
				m := ip.message(name)
				b, _ := m.MarshalBinary()
				b = append([]byte(nil), b...)
				r["bytes"] = byteList(b)
				r["orig"] = projectMsg(m)
				buf := append(append([]byte(nil), b...), junk...)
				var dec util.Message
				var via string
				var derr error
				if isTopLevel(m) {
					// through the dispatcher when it handles the kind, else through the kind's own decoder
					dec, derr = of.Parse(append([]byte(nil), b...))
					via = "Parse"
					if dec == nil && derr == nil {
						dec, via, derr = decodeAs(m, b)
					}
				} else {
					dec, via, derr = decodeAs(m, buf)
				}
				r["via"] = via
				r["err"] = derr != nil
				if dec == nil || reflect.ValueOf(dec).IsNil() {
					r["nil"] = true
					return
				}
				r["dec"] = projectMsg(dec)
				r["declen"] = int(dec.Len())
				r["dectype"] = typeName(dec)
				r["origtype"] = typeName(m)
				b2, _ := dec.MarshalBinary()
				r["reenc"] = byteList(b2)
			})
			if p != nil {
				r["panic"], r["where"] = p, where
			}
			results = append(results, r)
		}
		obs["results"] = results
		return sc
	})
}

// parseCmd: scenario {frame: [bytes]}: Parse, project, re-encode; then overwrite the input buffer with each pattern and
// observe the message again (ownership).
func parseCmd(args []string) error {
	in, out, err := ioFlags("parse", args, nil)
	if err != nil {
		return err
	}
	// every parsed message is kept until the whole corpus has been parsed and is then observed once more ("final"): messages parsed
	// later must not change it (state shared between parsed values, e.g. a template whose buffers every new message points into)
	var finals []func()
	var rows []J
	err = eachLine(in, os.DevNull, func(n int, sc J) J {
		rows = append(rows, sc)
		obs := J{}
		sc["obs"] = obs
		frame := toBytes(sc["frame"])
		buf := append([]byte(nil), frame...)
		var msg util.Message
		var perr error
		p, where := guard(func() { msg, perr = of.Parse(buf) })
		if p != nil {
			obs["panic"], obs["where"] = p, where
			return sc
		}
		obs["err"] = perr != nil
		if msg == nil || reflect.ValueOf(msg).IsNil() {
			obs["nil"] = true
			return sc
		}
		snap := func() J {
			r := J{}
			p, where := guard(func() {
				r["len"] = int(msg.Len())
				b, _ := msg.MarshalBinary()
				r["reenc"] = byteList(b)
				r["tree"] = projectMsg(msg)
			})
			if p != nil {
				r["panic"], r["where"] = p, where
			}
			return r
		}
		obs["type"] = reflect.TypeOf(msg).String()
		obs["first"] = snap()
		if sc["scribble"] == true {
			var after []J
			for pat := 0; pat < 4; pat++ {
				for i := range buf {
					switch pat {
					case 0:
						buf[i] = 0
					case 1:
						buf[i] = 0xff
					case 2:
						buf[i] = ^frame[i]
					case 3:
						buf[i] = frame[(i+13)%len(frame)] + 1
					}
				}
				after = append(after, snap())
			}
			obs["after"] = after
		}
		if perr == nil {
			finals = append(finals, func() { obs["final"] = snap() })
		}
		return sc
	})
	if err != nil {
		return err
	}
	for _, f := range finals {
		f()
	}
	fo, err := os.Create(out)
	if err != nil {
		return err
	}
	defer fo.Close()
	w := bufio.NewWriterSize(fo, 1<<20)
	defer w.Flush()
	enc := json.NewEncoder(w)
	for _, sc := range rows {
		if e := enc.Encode(sc); e != nil {
			return e
		}
	}
	return nil
}
