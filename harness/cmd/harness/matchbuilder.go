package main

import (
	"bytes"
	"math/big"
	"net"

	of "github.com/contiv/libOpenflow/openflow13"
)

func init() { subcommands["matchbuilder"] = matchbuilderCmd }

// callMF instantiates the generic builder for argument type T and an int window.
func callMF[T int | int8 | int16 | int32 | int64 | uint | uint8 | uint16 | uint32 | uint64 | *big.Int | []byte | net.IP | net.HardwareAddr](
	name string, v T, win []int) (*of.MatchField, error) {
	return of.NewMatchField[T, int](name, v, win...)
}

func trimZeros(b []byte) []byte {
	for len(b) > 1 && b[0] == 0 {
		b = b[1:]
	}
	return b
}

func matchbuilderCmd(args []string) error {
	in, out, err := ioFlags("matchbuilder", args, nil)
	if err != nil {
		return err
	}
	return eachLine(in, out, func(n int, sc J) J {
		obs := J{}
		name := sc["name"].(string)
		form := toInt(sc["form"])
		mag := trimZeros(toBytes(sc["val"]))
		neg := sc["neg"].(bool)
		o, nb, s := toInt(sc["o"]), toInt(sc["n"]), toInt(sc["s"])
		var win []int
		switch form {
		case 1:
			win = []int{o}
		case 2:
			win = []int{o, nb}
		case 3:
			win = []int{o, nb, s}
		}
		winCopy := append([]int(nil), win...)
		u := new(big.Int).SetBytes(mag).Uint64()
		i := int64(u)
		if neg {
			i = -i
		}
		var f *of.MatchField
		var e error
		argsame := true
		p, where := guard(func() {
			switch sc["at"].(string) {
			case "u8":
				f, e = callMF(name, uint8(u), win)
			case "u16":
				f, e = callMF(name, uint16(u), win)
			case "u32":
				f, e = callMF(name, uint32(u), win)
			case "u64":
				f, e = callMF(name, uint64(u), win)
			case "uint":
				f, e = callMF(name, uint(u), win)
			case "i8":
				f, e = callMF(name, int8(i), win)
			case "i16":
				f, e = callMF(name, int16(i), win)
			case "i32":
				f, e = callMF(name, int32(i), win)
			case "i64":
				f, e = callMF(name, int64(i), win)
			case "int":
				f, e = callMF(name, int(i), win)
			case "bytes":
				arg := append([]byte(nil), mag...)
				f, e = callMF(name, arg, win)
				argsame = bytes.Equal(arg, mag)
			case "ip":
				arg := net.IP(append([]byte(nil), mag...))
				f, e = callMF(name, arg, win)
				argsame = bytes.Equal(arg, mag)
			case "mac":
				arg := net.HardwareAddr(append([]byte(nil), mag...))
				f, e = callMF(name, arg, win)
				argsame = bytes.Equal(arg, mag)
			case "big":
				arg := new(big.Int).SetBytes(mag)
				if neg {
					arg.Neg(arg)
				}
				snap := new(big.Int).Set(arg)
				defer func() { argsame = arg.Cmp(snap) == 0 }()
				f, e = callMF(name, arg, win)
			}
		})
		for k := range win {
			if win[k] != winCopy[k] {
				argsame = false
			}
		}
		obs["argsame"] = argsame
		if p != nil {
			obs["panic"] = p
			obs["where"] = where
		} else {
			obs["err"] = e != nil
			if e == nil && f != nil {
				p2, w2 := guard(func() {
					b, _ := f.MarshalBinary()
					obs["bytes"] = byteList(b)
					if f.Value != nil {
						obs["vlen"] = int(f.Value.Len())
					}
					if f.Mask != nil {
						obs["mlen"] = int(f.Mask.Len())
					}
				})
				if p2 != nil {
					obs["panic"] = p2
					obs["where"] = w2
				}
			}
		}
		// the dedicated register constructor, for the same placed value and window
		if form >= 2 && o >= 0 && nb >= 1 && o+nb <= 32 {
			guard(func() {
				pl := toBytes(sc["placed"])
				data := uint32(pl[0])<<24 | uint32(pl[1])<<16 | uint32(pl[2])<<8 | uint32(pl[3])
				rb, _ := of.NewRegMatchField(toInt(sc["reg"]), data, of.NewNXRangeByOfsNBits(o, nb)).MarshalBinary()
				obs["regbytes"] = byteList(rb)
			})
		}
		sc["obs"] = obs
		return sc
	})
}
