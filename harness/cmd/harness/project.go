package main

// Projection of Go values into abstract JSON trees, using only what a caller
// of the library can observe: exported fields by name, the dynamic type of
// interface values, and -- for kinds that keep their state in unexported
// fields -- the kind's own encoding as "raw".  No layout knowledge.

import (
	"net"
	"reflect"
	"strings"

	of "github.com/contiv/libOpenflow/openflow13"
	"github.com/contiv/libOpenflow/protocol"
	"github.com/contiv/libOpenflow/util"
)

var (
	tIP      = reflect.TypeOf(net.IP{})
	tMAC     = reflect.TypeOf(net.HardwareAddr{})
	tMsg     = reflect.TypeOf((*util.Message)(nil)).Elem()
	tMF      = reflect.TypeOf(of.MatchField{})
	tBuffer  = reflect.TypeOf(util.Buffer{})
	padNames = []string{"pad", "zero", "reserved"}
)

func isPadName(n string) bool {
	l := strings.ToLower(n)
	for _, p := range padNames {
		if strings.HasPrefix(l, p) {
			return true
		}
	}
	return false
}

func uintBytes(u uint64, size int) []int {
	r := make([]int, size)
	for i := size - 1; i >= 0; i-- {
		r[i] = int(u & 0xff)
		u >>= 8
	}
	return r
}

func rawOf(v reflect.Value) (res []int, ok bool) {
	defer func() {
		if recover() != nil {
			ok = false
		}
	}()
	var m util.Message
	if v.Kind() == reflect.Ptr {
		if v.IsNil() {
			return nil, false
		}
		m, _ = v.Interface().(util.Message)
	} else if v.CanAddr() {
		m, _ = v.Addr().Interface().(util.Message)
	} else {
		p := reflect.New(v.Type())
		p.Elem().Set(v)
		m, _ = p.Interface().(util.Message)
	}
	if m == nil {
		return nil, false
	}
	b, err := m.MarshalBinary()
	if err != nil {
		return nil, false
	}
	return byteList(b), true
}

// project converts v to JSON-able data.  depth guards against cycles.
var skipLength = false

func project(v reflect.Value, depth int) interface{} {
	if depth > 24 || !v.IsValid() {
		return J{"T": "nil"}
	}
	switch v.Kind() {
	case reflect.Ptr, reflect.Interface:
		if v.IsNil() {
			return J{"T": "nil"}
		}
		if v.CanInterface() {
			if o, ok := v.Interface().(protocol.DHCPOption); ok { // options keep tag and data unexported: observed through their accessors
				return J{"T": "DHCPOption", "Tag": []int{int(o.OptionType())}, "Data": byteList(o.Bytes())}
			}
		}
		return project(v.Elem(), depth+1)
	case reflect.Bool:
		return v.Bool()
	case reflect.String:
		return v.String()
	case reflect.Uint8, reflect.Uint16, reflect.Uint32, reflect.Uint64, reflect.Uint:
		return uintBytes(v.Uint(), int(v.Type().Size()))
	case reflect.Int, reflect.Int8, reflect.Int16, reflect.Int32, reflect.Int64:
		return int(v.Int())
	case reflect.Slice, reflect.Array:
		if v.Kind() == reflect.Slice && v.IsNil() {
			if v.Type().Elem().Kind() == reflect.Uint8 {
				return []int{}
			}
			return []interface{}{}
		}
		if v.Type().Elem().Kind() == reflect.Uint8 {
			n := v.Len()
			if v.Type() == tIP && n == 16 {
				// an IPv4 address is the same value in its 4- and 16-byte representations
				ip := make(net.IP, 16)
				reflect.Copy(reflect.ValueOf(ip), v)
				if ip4 := ip.To4(); ip4 != nil {
					return byteList(ip4)
				}
			}
			r := make([]int, n)
			for i := 0; i < n; i++ {
				r[i] = int(v.Index(i).Uint())
			}
			return r
		}
		r := make([]interface{}, v.Len())
		for i := range r {
			r[i] = project(v.Index(i), depth+1)
		}
		return r
	case reflect.Struct:
		t := v.Type()
		if t == tBuffer {
			if v.CanAddr() {
				b := v.Addr().Interface().(*util.Buffer)
				return J{"T": "Buffer", "B": byteList(b.Bytes())}
			}
			cp := reflect.New(t)
			cp.Elem().Set(v)
			return J{"T": "Buffer", "B": byteList(cp.Interface().(*util.Buffer).Bytes())}
		}
		out := J{"T": t.Name()}
		if t == tMF {
			// match-field payload types keep their value unexported: observe them through their own encoding
			for _, f := range []string{"Class", "Field", "HasMask", "Length", "ExperimenterID"} {
				out[f] = project(v.FieldByName(f), depth+1)
			}
			for _, f := range []string{"Value", "Mask"} {
				fv := v.FieldByName(f)
				if !fv.IsNil() {
					if raw, ok := rawOf(fv.Elem()); ok {
						out[f] = raw
					} else {
						out[f] = "unencodable"
					}
				}
			}
			return out
		}
		hidden := false
		for i := 0; i < t.NumField(); i++ {
			sf := t.Field(i)
			fv := v.Field(i)
			if sf.PkgPath != "" { // unexported
				if !isPadName(sf.Name) {
					hidden = true
				}
				continue
			}
			if sf.Anonymous && !(strings.HasSuffix(sf.Name, "Header") && sf.Name != "Header") && sf.Name != "ErrorMsg" {
				// an embedded message part (common.Header, Match) stays a part; embedded element headers are flattened
				out[sf.Name] = project(fv, depth+1)
				continue
			}
			if sf.Anonymous {
				inner := project(fv, depth+1)
				if m, ok := inner.(J); ok {
					for k, x := range m {
						if k != "T" && k != "raw" {
							if _, dup := out[k]; !dup {
								out[k] = x
							}
						}
					}
				}
				continue
			}
			if sf.Name == "Length" && skipLength && t.Name() == "Bucket" {
				continue // derived by the encoder, not a value put in by the caller
			}
			out[sf.Name] = project(fv, depth+1)
		}
		if hidden {
			if raw, ok := rawOf(v); ok {
				out["raw"] = raw
			}
		}
		return out
	}
	return J{"T": "nil"}
}

func projectMsg(m interface{}) interface{} {
	if a, ok := m.(*rwAdapter); ok {
		m = a.Inner()
	}
	var res interface{}
	p, _ := guard(func() { res = project(reflect.ValueOf(m), 0) })
	if p != nil {
		return J{"projpanic": p}
	}
	return res
}
