package main

// Totality harness (C07, C08): applies specification-generated mutations to base
// frames and feeds every mutant to a decoder entry point, in a watched child
// process.  Outcomes msg / err are only counted; panic / hang / heap outcomes are
// listed individually.  No expected values: the acceptor is TLC's.

import (
	"bufio"
	"encoding/json"
	"fmt"
	"os"
	"os/exec"
	"runtime"
	"strconv"
	"strings"
	"sync/atomic"
	"syscall"
	"time"

	of "github.com/contiv/libOpenflow/openflow13"
	"github.com/contiv/libOpenflow/protocol"
	"github.com/contiv/libOpenflow/util"
)

func init() {
	subcommands["total"] = totalCmd
	subcommands["total-worker"] = totalWorker
}

type unmarshaler interface{ UnmarshalBinary([]byte) error }

// entries: decoder entry points by name.  Each returns (accepted, error).
var entries = map[string]func(b []byte) (bool, error){
	"Parse": func(b []byte) (bool, error) {
		m, err := of.Parse(b)
		return m != nil, err
	},
	"StreamParse": func(b []byte) (bool, error) { // what the stream's parser goroutine does with a buffer
		m, err := of.Parse(b)
		if m != nil && err == nil {
			_ = m.Len()
		}
		return m != nil, err
	},
	"Ethernet":               func(b []byte) (bool, error) { return true, new(protocol.Ethernet).UnmarshalBinary(b) },
	"VLAN":                   func(b []byte) (bool, error) { return true, new(protocol.VLAN).UnmarshalBinary(b) },
	"ARP":                    func(b []byte) (bool, error) { return true, new(protocol.ARP).UnmarshalBinary(b) },
	"IPv4":                   func(b []byte) (bool, error) { return true, protocol.NewIPv4().UnmarshalBinary(b) },
	"IPv6":                   func(b []byte) (bool, error) { return true, new(protocol.IPv6).UnmarshalBinary(b) },
	"HopByHopHeader":         func(b []byte) (bool, error) { return true, protocol.NewHopByHopHeader().UnmarshalBinary(b) },
	"RoutingHeader":          func(b []byte) (bool, error) { return true, protocol.NewRoutingHeader().UnmarshalBinary(b) },
	"FragmentHeader":         func(b []byte) (bool, error) { return true, protocol.NewFragmentHeader().UnmarshalBinary(b) },
	"Option":                 func(b []byte) (bool, error) { return true, new(protocol.Option).UnmarshalBinary(b) },
	"ICMP":                   func(b []byte) (bool, error) { return true, protocol.NewICMP().UnmarshalBinary(b) },
	"TCP":                    func(b []byte) (bool, error) { return true, protocol.NewTCP().UnmarshalBinary(b) },
	"UDP":                    func(b []byte) (bool, error) { return true, protocol.NewUDP().UnmarshalBinary(b) },
	"IGMPv1or2":              func(b []byte) (bool, error) { return true, new(protocol.IGMPv1or2).UnmarshalBinary(b) },
	"IGMPv3Query":            func(b []byte) (bool, error) { return true, new(protocol.IGMPv3Query).UnmarshalBinary(b) },
	"IGMPv3GroupRecord":      func(b []byte) (bool, error) { return true, new(protocol.IGMPv3GroupRecord).UnmarshalBinary(b) },
	"IGMPv3MembershipReport": func(b []byte) (bool, error) { return true, new(protocol.IGMPv3MembershipReport).UnmarshalBinary(b) },
	"DHCP": func(b []byte) (bool, error) {
		_, err := new(protocol.DHCP).Write(b)
		return true, err
	},
	"DHCPOptions": func(b []byte) (bool, error) {
		_, err := protocol.DHCPParseOptions(b)
		return true, err
	},
	"ChassisTLV": func(b []byte) (bool, error) {
		_, err := new(protocol.ChassisTLV).Write(b)
		return true, err
	},
	"PortTLV": func(b []byte) (bool, error) {
		_, err := new(protocol.PortTLV).Write(b)
		return true, err
	},
	"TTLTLV": func(b []byte) (bool, error) {
		_, err := new(protocol.TTLTLV).Write(b)
		return true, err
	},
	"LLDP": func(b []byte) (bool, error) {
		_, err := new(protocol.LLDP).Write(b)
		return true, err
	},
	"Buffer": func(b []byte) (bool, error) { return true, new(util.Buffer).UnmarshalBinary(b) },
}

// applyMut applies one mutation descriptor [op, pos(1-based), width, value] to a copy of base.
func applyMut(base []byte, mu []interface{}) []byte {
	op := mu[0].(string)
	if op == "d" {
		return applyDouble(base, mu)
	}
	pos, w, v := toInt(mu[1]), toInt(mu[2]), toU64(mu[3])
	switch op {
	case "t": // truncate to pos bytes
		if pos > len(base) {
			pos = len(base)
		}
		return append([]byte(nil), base[:pos]...)
	case "s": // set the w-byte big-endian field at pos to v
		b := append([]byte(nil), base...)
		for i := w - 1; i >= 0; i-- {
			if pos-1+i < len(b) && pos-1+i >= 0 {
				b[pos-1+i] = byte(v)
			}
			v >>= 8
		}
		return b
	case "f": // fill w bytes at pos with the byte v
		b := append([]byte(nil), base...)
		for i := 0; i < w; i++ {
			if pos-1+i < len(b) && pos-1+i >= 0 {
				b[pos-1+i] = byte(v)
			}
		}
		return b
	case "x": // extend: append w copies of byte v
		b := append([]byte(nil), base...)
		for i := 0; i < w; i++ {
			b = append(b, byte(v))
		}
		return b
	}
	return append([]byte(nil), base...)
}

// applyDouble handles <<"d", p1, p2, v1, v2>>: two 16-bit fields set at once.
func applyDouble(base []byte, mu []interface{}) []byte {
	b := append([]byte(nil), base...)
	for _, pv := range [][2]int{{toInt(mu[1]), toInt(mu[3])}, {toInt(mu[2]), toInt(mu[4])}} {
		if pv[0] >= 1 && pv[0]+1 <= len(b) {
			b[pv[0]-1], b[pv[0]] = byte(pv[1]>>8), byte(pv[1])
		}
	}
	return b
}

func cpuTime() time.Duration {
	var ru syscall.Rusage
	syscall.Getrusage(syscall.RUSAGE_SELF, &ru)
	return time.Duration(ru.Utime.Nano() + ru.Stime.Nano())
}

// totalWorker: -in file -line L -from K -budget seconds.  Processes line L of the file starting at mutation index K
// (0-based; index -1 is the unmutated base).  Prints "F <idx> <kind> <json>" for failures and "D <nmsg> <nerr> <allocBytes>" when done.
func totalWorker(args []string) error {
	var file string
	var line, from, budget int
	for i := 0; i+1 < len(args); i += 2 {
		switch args[i] {
		case "-in":
			file = args[i+1]
		case "-line":
			line, _ = strconv.Atoi(args[i+1])
		case "-from":
			from, _ = strconv.Atoi(args[i+1])
		case "-budget":
			budget, _ = strconv.Atoi(args[i+1])
		}
	}
	if budget <= 0 {
		budget = 2
	}
	f, err := os.Open(file)
	if err != nil {
		return err
	}
	defer f.Close()
	rd := bufio.NewReaderSize(f, 1<<20)
	var sc J
	for n := 1; ; n++ {
		ln, err := rd.ReadBytes('\n')
		if n == line {
			d := json.NewDecoder(strings.NewReader(string(ln)))
			d.UseNumber()
			if e := d.Decode(&sc); e != nil {
				return e
			}
			break
		}
		if err != nil {
			return fmt.Errorf("line %d not found", line)
		}
	}
	entry, ok := entries[sc["entry"].(string)]
	if !ok {
		return fmt.Errorf("unknown entry %v", sc["entry"])
	}
	base := toBytes(sc["frame"])
	muts, _ := sc["muts"].([]interface{})
	out := bufio.NewWriter(os.Stdout)
	defer out.Flush()
	var cur int64 = -2
	var started int64
	var nmsg, nerr int64
	go func() { // watchdog: CPU time consumed by the current case, and heap size
		var ms runtime.MemStats
		for {
			time.Sleep(40 * time.Millisecond)
			c := atomic.LoadInt64(&cur)
			st := atomic.LoadInt64(&started)
			if c >= -1 && st > 0 && int64(cpuTime())-st > int64(time.Duration(budget)*time.Second) {
				fmt.Fprintf(os.Stdout, "\nP %d %d\nF %d hang {}\n", atomic.LoadInt64(&nmsg), atomic.LoadInt64(&nerr), c)
				os.Exit(3)
			}
			runtime.ReadMemStats(&ms)
			if ms.HeapAlloc > 1500<<20 {
				fmt.Fprintf(os.Stdout, "\nP %d %d\nF %d heap {}\n", atomic.LoadInt64(&nmsg), atomic.LoadInt64(&nerr), c)
				os.Exit(4)
			}
		}
	}()
	var ms0, ms1 runtime.MemStats
	runtime.ReadMemStats(&ms0)
	for k := from; k < len(muts); k++ {
		var b []byte
		if k < 0 {
			b = append([]byte(nil), base...)
		} else {
			b = applyMut(base, muts[k].([]interface{}))
		}
		b = b[:len(b):len(b)] // no spare capacity: a read beyond the input cannot be hidden by the allocator's size classes
		atomic.StoreInt64(&started, int64(cpuTime()))
		atomic.StoreInt64(&cur, int64(k))
		var e error
		p, where := guard(func() { _, e = entry(b) })
		atomic.StoreInt64(&cur, -2)
		if p != nil {
			js, _ := json.Marshal(J{"panic": fmt.Sprint(p), "where": where, "len": len(b)})
			out.Flush()
			fmt.Fprintf(out, "F %d panic %s\n", k, js)
		} else if e != nil {
			atomic.AddInt64(&nerr, 1)
		} else {
			atomic.AddInt64(&nmsg, 1)
		}
	}
	runtime.ReadMemStats(&ms1)
	fmt.Fprintf(out, "D %d %d %d\n", nmsg, nerr, ms1.TotalAlloc-ms0.TotalAlloc)
	return nil
}

// totalCmd: the parent.  For every line of the input it drives workers until all mutations of the line were executed.
func totalCmd(args []string) error {
	in, out, err := ioFlags("total", args, nil)
	if err != nil {
		return err
	}
	exe, _ := os.Executable()
	return eachLine(in, out, func(n int, sc J) J {
		muts, _ := sc["muts"].([]interface{})
		total := len(muts) + 1 // index -1 = the unmutated base
		nmsg, nerr := 0, 0
		var alloc uint64
		failures := []J{}
		from := -1
		runWorker := func(from, budget int) (done bool, lastFail int, kind string) {
			cmd := exec.Command(exe, "total-worker", "-in", in, "-line", strconv.Itoa(n), "-from", strconv.Itoa(from), "-budget", strconv.Itoa(budget))
			cmd.Stderr = nil
			outb, _ := cmd.Output()
			lastFail = -2
			for _, ln := range strings.Split(string(outb), "\n") {
				parts := strings.SplitN(ln, " ", 4)
				switch parts[0] {
				case "F":
					idx, _ := strconv.Atoi(parts[1])
					f := J{"i": idx, "outcome": parts[2]}
					if idx >= 0 && idx < len(muts) {
						f["mut"] = muts[idx]
					}
					if parts[2] == "panic" && len(parts) > 3 {
						var d J
						json.Unmarshal([]byte(parts[3]), &d)
						f["where"], f["msg"] = d["where"], d["panic"]
						failures = append(failures, f)
					} else {
						lastFail, kind = idx, parts[2]
					}
				case "P":
					a, _ := strconv.Atoi(parts[1])
					b, _ := strconv.Atoi(parts[2])
					nmsg += a
					nerr += b
				case "D":
					a, _ := strconv.Atoi(parts[1])
					b, _ := strconv.Atoi(parts[2])
					c, _ := strconv.ParseUint(parts[3], 10, 64)
					nmsg += a
					nerr += b
					alloc += c
					done = true
				}
			}
			return
		}
		for guardIter := 0; guardIter < 400; guardIter++ {
			done, lf, kind := runWorker(from, 2)
			if done {
				break
			}
			if lf < -1 {
				failures = append(failures, J{"i": from, "outcome": "worker-died"})
				break
			}
			// confirm alone with twice the budget: run only that case
			confirmed := true
			if kind == "hang" {
				cmd := exec.Command(exe, "total-worker", "-in", in, "-line", strconv.Itoa(n), "-from", strconv.Itoa(lf), "-budget", "4")
				outb, _ := cmd.Output()
				// the solitary run continues past the case if it terminates; it is confirmed iff it reports the same case again
				confirmed = strings.Contains(string(outb), fmt.Sprintf("F %d hang", lf)) || strings.Contains(string(outb), fmt.Sprintf("F %d heap", lf))
			}
			if confirmed {
				f := J{"i": lf, "outcome": kind}
				if lf >= 0 && lf < len(muts) {
					f["mut"] = muts[lf]
				}
				failures = append(failures, f)
			}
			from = lf + 1
			if from >= len(muts) {
				break
			}
		}
		if len(failures) > 60 {
			failures = append(failures[:60], J{"outcome": "more", "i": len(failures)})
		}
		nfail := 0
		for _, f := range failures {
			if f["outcome"] != "more" {
				nfail++
			} else {
				nfail += toInt(f["i"]) - 60 - 1
			}
		}
		delete(sc, "muts")
		sc["nmuts"] = total
		sc["obs"] = J{"msg": nmsg, "err": nerr, "failures": failures, "allocPerMutant": alloc / uint64(total), "ran": nmsg + nerr + nfail}
		return sc
	})
}
