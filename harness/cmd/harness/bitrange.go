package main

import (
	"encoding/binary"

	of "github.com/contiv/libOpenflow/openflow13"
)

func init() { subcommands["bitrange"] = bitrangeCmd }

func be16(v uint16) []int { return []int{int(v >> 8), int(v & 0xff)} }
func be32(v uint32) []int {
	b := make([]byte, 4)
	binary.BigEndian.PutUint32(b, v)
	return byteList(b)
}

func bitrangeCmd(args []string) error {
	in, out, err := ioFlags("bitrange", args, nil)
	if err != nil {
		return err
	}
	return eachLine(in, out, func(n int, sc J) J {
		obs := J{}
		p, where := guard(func() {
			switch sc["k"].(string) {
			case "range":
				f, l := toInt(sc["first"]), toInt(sc["last"])
				r1 := of.NewNXRange(f, l)
				r2 := of.NewNXRangeByOfsNBits(f, l-f+1)
				obs["mask"] = be32(r1.ToUint32Mask())
				obs["mask2"] = be32(r2.ToUint32Mask())
				obs["ofsbits"] = be16(r1.ToOfsBits())
				obs["ofsbits2"] = be16(r2.ToOfsBits())
				obs["ofs"], obs["ofs2"] = int(r1.GetOfs()), int(r2.GetOfs())
				obs["nbits"], obs["nbits2"] = int(r1.GetNbits()), int(r2.GetNbits())
				val := binary.BigEndian.Uint32(toBytes(sc["val"]))
				fb, _ := of.NewRegMatchField(toInt(sc["reg"]), val, of.NewNXRange(f, l)).MarshalBinary()
				obs["regfield"] = byteList(fb)
				zf, _ := of.FindFieldHeaderByName("NXM_NX_REG1", false)
				cb, _ := of.NewNXActionConnTrack().ZoneRange(zf, of.NewNXRange(f, l)).MarshalBinary()
				if len(cb) >= 18 {
					obs["ctzone"] = byteList(cb[16:18])
				}
			case "ofsn":
				o, nb := uint16(toInt(sc["ofs"])), uint16(toInt(sc["n"]))
				obs["enc"] = be16(of.VerifEncodeOfsNbits(o, nb))
				obs["enc2"] = be16(of.VerifEncodeOfsNbitsStartEnd(o, o+nb-1))
				w := binary.BigEndian.Uint16(toBytes(sc["word"]))
				obs["decofs"] = int(of.VerifDecodeOfs(w))
				obs["decn"] = int(of.VerifDecodeNbits(w))
				r := of.NewNXRangeByOfsNBits(int(o), int(nb))
				obs["rng"] = be16(r.ToOfsBits())
				obs["rng2"] = be16(of.NewNXRange(int(o), int(o+nb-1)).ToOfsBits())
				obs["rofs"], obs["rn"] = int(r.GetOfs()), int(r.GetNbits())
			}
		})
		if p != nil {
			obs["panic"] = p
			obs["where"] = where
		}
		sc["obs"] = obs
		return sc
	})
}
