package main

import (
	"encoding/binary"

	"github.com/contiv/libOpenflow/ofbase"
)

func init() { subcommands["ofbase"] = ofbaseCmd }

func ofbaseCmd(args []string) error {
	in, out, err := ioFlags("ofbase", args, nil)
	if err != nil {
		return err
	}
	return eachLine(in, out, func(n int, sc J) J {
		obs := J{}
		p, where := guard(func() {
			switch sc["k"].(string) {
			case "enc":
				ofbaseEnc(sc, obs)
			case "dec":
				ofbaseDec(sc, obs)
			case "hdr":
				ofbaseHdr(sc, obs)
			}
		})
		if p != nil {
			obs["panic"] = p
			obs["where"] = where
		}
		sc["obs"] = obs
		return sc
	})
}

func ofbaseEnc(sc J, obs J) {
	ops := sc["ops"].([]interface{})
	e := ofbase.NewEncoder()
	lens := []int{}
	for _, o := range ops {
		op := o.([]interface{})
		switch op[0].(string) {
		case "u8":
			e.PutUint8(toBytes(op[1])[0])
		case "ch":
			e.PutChar(toBytes(op[1])[0])
		case "u16":
			e.PutUint16(binary.BigEndian.Uint16(toBytes(op[1])))
		case "u32":
			e.PutUint32(binary.BigEndian.Uint32(toBytes(op[1])))
		case "u64":
			e.PutUint64(binary.BigEndian.Uint64(toBytes(op[1])))
		case "u128":
			b := toBytes(op[1])
			e.PutUint128(ofbase.Uint128{Hi: binary.BigEndian.Uint64(b[:8]), Lo: binary.BigEndian.Uint64(b[8:])})
		case "raw":
			e.Write(toBytes(op[1]))
		case "align":
			e.SkipAlign()
		}
		lens = append(lens, len(e.Bytes()))
	}
	enc := append([]byte{}, e.Bytes()...)
	obs["bytes"] = byteList(enc)
	obs["lens"] = lens
	d := ofbase.NewDecoder(enc)
	dec := []interface{}{}
	for _, o := range ops {
		op := o.([]interface{})
		var v []byte
		switch op[0].(string) {
		case "u8":
			v = []byte{d.ReadUint8()}
		case "ch":
			v = []byte{d.ReadByte()}
		case "u16":
			v = make([]byte, 2)
			binary.BigEndian.PutUint16(v, d.ReadUint16())
		case "u32":
			v = make([]byte, 4)
			binary.BigEndian.PutUint32(v, d.ReadUint32())
		case "u64":
			v = make([]byte, 8)
			binary.BigEndian.PutUint64(v, d.ReadUint64())
		case "u128":
			x := d.ReadUint128()
			v = make([]byte, 16)
			binary.BigEndian.PutUint64(v, x.Hi)
			binary.BigEndian.PutUint64(v[8:], x.Lo)
		case "raw":
			v = append([]byte{}, d.Read(len(toBytes(op[1])))...)
		case "align":
			d.SkipAlign()
			v = []byte{}
		}
		dec = append(dec, []interface{}{byteList(v), d.Offset()})
	}
	obs["dec"] = dec
}

func ofbaseDec(sc J, obs J) {
	n := toInt(sc["n"])
	msg := make([]byte, n)
	for i := range msg {
		msg[i] = byte((i + 1) % 256)
	}
	stack := []*ofbase.Decoder{ofbase.NewDecoder(msg)}
	steps := []interface{}{}
	for _, o := range sc["ops"].([]interface{}) {
		op := o.([]interface{})
		d := stack[len(stack)-1]
		v := []byte{}
		switch op[0].(string) {
		case "skip":
			d.Skip(toInt(op[1]))
		case "align":
			d.SkipAlign()
		case "slice":
			stack = append(stack, d.SliceDecoder(toInt(op[1]), toInt(op[2])))
		case "rd":
			switch toInt(op[1]) {
			case 1:
				v = []byte{d.ReadByte()}
			case 2:
				v = make([]byte, 2)
				binary.BigEndian.PutUint16(v, d.ReadUint16())
			case 4:
				v = make([]byte, 4)
				binary.BigEndian.PutUint32(v, d.ReadUint32())
			case 8:
				v = make([]byte, 8)
				binary.BigEndian.PutUint64(v, d.ReadUint64())
			}
		case "pop":
			stack = stack[:len(stack)-1]
		}
		d = stack[len(stack)-1]
		steps = append(steps, []interface{}{d.Offset(), d.BaseOffset(), d.Length(), byteList(v), byteList(d.Bytes())})
	}
	obs["steps"] = steps
}

func ofbaseHdr(sc J, obs J) {
	n, pre := toInt(sc["n"]), toInt(sc["pre"])
	via, _ := sc["via"].(string)
	backing := make([]byte, n+16)
	for i := range backing {
		backing[i] = byte((i + 1) % 256)
	}
	var d *ofbase.Decoder
	switch via {
	case "prefix": // the input is a prefix of a longer array: bytes beyond it exist in memory but are not part of it
		d = ofbase.NewDecoder(backing[:n])
	case "slice": // the input is a window of an enclosing message
		d = ofbase.NewDecoder(backing).SliceDecoder(n, 0)
	default:
		d = ofbase.NewDecoder(append([]byte(nil), backing[:n]...)[:n:n])
	}
	d.Skip(pre)
	var h ofbase.Header
	err := h.Decode(d)
	obs["err"] = err != nil
	if err == nil {
		f := make([]byte, 8)
		f[0], f[1] = h.Version, h.Type
		binary.BigEndian.PutUint16(f[2:], h.Length)
		binary.BigEndian.PutUint32(f[4:], h.Xid)
		obs["fields"] = byteList(f)
		obs["off"] = d.Offset()
	}
}
