package main

import (
	of "github.com/contiv/libOpenflow/openflow13"
)

func init() { subcommands["ctstate"] = ctstateCmd }

// ctOp applies operation (flag, pol) to the real builder.
func ctOp(s *of.CTStates, flag int, pol string) {
	set := pol == "s"
	switch flag {
	case 0:
		if set {
			s.SetNew()
		} else {
			s.UnsetNew()
		}
	case 1:
		if set {
			s.SetEst()
		} else {
			s.UnsetEst()
		}
	case 2:
		if set {
			s.SetRel()
		} else {
			s.UnsetRel()
		}
	case 3:
		if set {
			s.SetRpl()
		} else {
			s.UnsetRpl()
		}
	case 4:
		if set {
			s.SetInv()
		} else {
			s.UnsetInv()
		}
	case 5:
		if set {
			s.SetTrk()
		} else {
			s.UnsetTrk()
		}
	case 6:
		if set {
			s.SetSNAT()
		} else {
			s.UnsetSNAT()
		}
	case 7:
		if set {
			s.SetDNAT()
		} else {
			s.UnsetDNAT()
		}
	default:
		panic("bad flag")
	}
}

func ctstateCmd(args []string) error {
	in, out, err := ioFlags("ctstate", args, nil)
	if err != nil {
		return err
	}
	return eachLine(in, out, func(n int, sc J) J {
		obs := J{}
		p, where := guard(func() {
			s := of.NewCTStates()
			// canonical call sequence reaching the abstract state `from`
			for f, v := range sc["from"].([]interface{}) {
				if v.(string) != "u" {
					ctOp(s, f, v.(string))
				}
			}
			for _, o := range sc["ops"].([]interface{}) {
				op := o.([]interface{})
				ctOp(s, toInt(op[0]), op[1].(string))
			}
			b, e := of.NewCTStateMatchField(s).MarshalBinary()
			obs["bytes"] = byteList(b)
			obs["err"] = e != nil
		})
		if p != nil {
			obs["panic"] = p
			obs["where"] = where
		}
		sc["obs"] = obs
		if _, ok := sc["id"]; !ok {
			sc["id"] = n
		}
		return sc
	})
}
