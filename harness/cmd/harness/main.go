// Command harness replays specification-generated scenarios on the real
// libOpenflow API and records what the code did.  It contains no expected
// values: every verdict is taken by TLC on the recorded trace.
package main

import (
	"bufio"
	"io"

	"encoding/json"
	"flag"
	"fmt"
	log "github.com/sirupsen/logrus"
	"os"
	"runtime/debug"
	"strings"
)

type J = map[string]interface{}

var subcommands = map[string]func(args []string) error{}

func main() {
	log.SetOutput(io.Discard)
	if len(os.Args) < 2 {
		fmt.Fprintln(os.Stderr, "usage: harness <subcommand> [flags]")
		os.Exit(2)
	}
	f, ok := subcommands[os.Args[1]]
	if !ok {
		fmt.Fprintln(os.Stderr, "unknown subcommand", os.Args[1])
		os.Exit(2)
	}
	if err := f(os.Args[2:]); err != nil {
		fmt.Fprintln(os.Stderr, "harness:", err)
		os.Exit(2)
	}
}

// ioFlags parses the common -in/-out flags.
func ioFlags(name string, args []string, extra func(fs *flag.FlagSet)) (in, out string, err error) {
	fs := flag.NewFlagSet(name, flag.ContinueOnError)
	fs.StringVar(&in, "in", "", "scenario file (ndjson)")
	fs.StringVar(&out, "out", "", "trace file (ndjson)")
	if extra != nil {
		extra(fs)
	}
	err = fs.Parse(args)
	return
}

// eachLine calls fn for every JSON line of file `in` and writes the returned
// object as one line of `out`.
func eachLine(in, out string, fn func(n int, sc J) J) error {
	fi, err := os.Open(in)
	if err != nil {
		return err
	}
	defer fi.Close()
	fo, err := os.Create(out)
	if err != nil {
		return err
	}
	defer fo.Close()
	w := bufio.NewWriterSize(fo, 1<<20)
	defer w.Flush()
	r := bufio.NewReaderSize(fi, 1<<20)
	enc := json.NewEncoder(w)
	n := 0
	for {
		line, err := r.ReadBytes('\n')
		if len(strings.TrimSpace(string(line))) > 0 {
			n++
			var sc J
			d := json.NewDecoder(strings.NewReader(string(line)))
			d.UseNumber()
			if e := d.Decode(&sc); e != nil {
				return fmt.Errorf("line %d: %v", n, e)
			}
			res := fn(n, sc)
			if res != nil {
				if e := enc.Encode(res); e != nil {
					return e
				}
			}
		}
		if err != nil {
			break
		}
	}
	return nil
}

// guard runs fn and converts a panic into a recorded observation.
func guard(fn func()) (panicked interface{}, where string) {
	defer func() {
		if r := recover(); r != nil {
			panicked = fmt.Sprint(r)
			where = innermostLibFrame(string(debug.Stack()))
		}
	}()
	fn()
	return nil, ""
}

func innermostLibFrame(stack string) string {
	for _, ln := range strings.Split(stack, "\n") {
		if strings.HasPrefix(ln, "github.com/contiv/libOpenflow/") {
			if i := strings.Index(ln, "("); i > 0 {
				return ln[:i]
			}
			return ln
		}
	}
	return ""
}

func toInt(v interface{}) int {
	switch x := v.(type) {
	case json.Number:
		i, _ := x.Int64()
		return int(i)
	case float64:
		return int(x)
	case int:
		return x
	}
	panic(fmt.Sprintf("not an int: %v", v))
}

func toU64(v interface{}) uint64 {
	switch x := v.(type) {
	case json.Number:
		var u uint64
		fmt.Sscan(x.String(), &u)
		return u
	case float64:
		return uint64(x)
	}
	panic(fmt.Sprintf("not an int: %v", v))
}

func byteList(b []byte) []int {
	r := make([]int, len(b))
	for i, x := range b {
		r[i] = int(x)
	}
	return r
}

func toBytes(v interface{}) []byte {
	arr, ok := v.([]interface{})
	if !ok {
		panic(fmt.Sprintf("not a byte array: %v", v))
	}
	r := make([]byte, len(arr))
	for i, x := range arr {
		r[i] = byte(toInt(x))
	}
	return r
}
