package main

import (
	"runtime"
	"sync"

	"github.com/contiv/libOpenflow/common"
	of "github.com/contiv/libOpenflow/openflow13"
)

func init() { subcommands["xid"] = xidCmd }

// drawers: every way the API hands out a fresh header / transaction id.
var drawers = []func() uint32{
	func() uint32 { h := of.NewOfp13Header(); return h.Xid },
	func() uint32 { return of.NewEchoRequest().Xid },
	func() uint32 { return of.NewEchoReply().Xid },
	func() uint32 { return of.NewFlowMod().Xid },
	func() uint32 { return of.NewGroupMod().Xid },
	func() uint32 { return of.NewPacketOut().Xid },
	func() uint32 { return of.NewFeaturesRequest().Xid },
	func() uint32 { return of.NewConfigRequest().Xid },
	func() uint32 { return of.NewSetConfig().Xid },
	func() uint32 { h, _ := common.NewHello(4); return h.Xid },
	func() uint32 { return of.NewNXTVendorHeader(of.Type_TlvTableRequest).Header.Xid },
	func() uint32 { return of.NewSetControllerID(1).Header.Xid },
	func() uint32 { return of.NewTLVTableRequest().Header.Xid },
	func() uint32 { return of.NewBundleControl(&of.BundleControl{BundleID: 1}).Header.Xid },
}

func xidCmd(args []string) error {
	in, out, err := ioFlags("xid", args, nil)
	if err != nil {
		return err
	}
	return eachLine(in, out, func(n int, sc J) J {
		obs := J{}
		g, per := toInt(sc["goroutines"]), toInt(sc["per"])
		if mp := toInt(sc["maxprocs"]); mp > 0 {
			defer runtime.GOMAXPROCS(runtime.GOMAXPROCS(mp))
		}
		ids := make([][]uint32, g)
		var panics sync.Map
		var wg sync.WaitGroup
		start := make(chan struct{})
		for i := 0; i < g; i++ {
			ids[i] = make([]uint32, 0, per)
			wg.Add(1)
			go func(i int) {
				defer wg.Done()
				<-start
				p, where := guard(func() {
					for k := 0; k < per; k++ {
						ids[i] = append(ids[i], drawers[(i+k)%len(drawers)]())
						if k%64 == i%64 {
							runtime.Gosched()
						}
					}
				})
				if p != nil {
					panics.Store(i, []interface{}{p, where})
				}
			}(i)
		}
		close(start)
		wg.Wait()
		var firstPanic interface{}
		panics.Range(func(k, v interface{}) bool { firstPanic = v; return false })
		if firstPanic != nil {
			obs["panic"] = firstPanic
		} else {
			min := uint32(0xffffffff)
			outIDs := make([][]int, g)
			for i := range ids {
				outIDs[i] = make([]int, len(ids[i]))
				for k, x := range ids[i] {
					outIDs[i][k] = int(x)
					if x < min {
						min = x
					}
				}
			}
			obs["ids"] = outIDs
			obs["min"] = int(min)
		}
		sc["obs"] = obs
		return sc
	})
}
