------------------------------- MODULE Bytes -------------------------------
(* Byte-level vocabulary shared by every wire-format module.                *)
(* A byte string is a sequence of naturals 0..255.  Multi-byte values are   *)
(* byte tuples, never integers (TLC integers are 32-bit); bit-level objects *)
(* are sets of bit positions (bit 0 = least significant).                   *)
EXTENDS Integers, Sequences, FiniteSets

Zeros(k) == [i \in 1..k |-> 0]
Fill(k, v) == [i \in 1..k |-> v]
IsByte(x) == x \in 0..255
IsBytes(s) == /\ DOMAIN s = 1..Len(s)
              /\ \A i \in 1..Len(s) : s[i] \in 0..255

BE16(v) == << (v \div 256) % 256, v % 256 >>
BE24(v) == << (v \div 65536) % 256, (v \div 256) % 256, v % 256 >>
BE32small(v) == << 0, (v \div 65536) % 256, (v \div 256) % 256, v % 256 >>   \* v < 2^24

\* value of the n-byte big-endian field starting at 1-based index i (n <= 3)
B8(b, i)  == b[i]
B16(b, i) == b[i] * 256 + b[i+1]
B24(b, i) == (b[i] * 256 + b[i+1]) * 256 + b[i+2]

Sub(b, i, n) == IF n <= 0 THEN <<>> ELSE SubSeq(b, i, i + n - 1)
Take(b, n) == SubSeq(b, 1, n)
\* a fixed-width slot holding a byte string of any length: cut or zero-filled to w bytes
Fix(b, w) == [i \in 1..w |-> IF i <= Len(b) THEN b[i] ELSE 0]
Drop(b, n) == SubSeq(b, n + 1, Len(b))

PadLen(n, a) == ((a - (n % a)) % a)
RoundUp(n, a) == n + PadLen(n, a)
Pad8(s) == s \o Zeros(PadLen(Len(s), 8))
AllZero(b, i, j) == \A k \in i..j : b[k] = 0

RECURSIVE Flat(_)
Flat(ss) == IF ss = <<>> THEN <<>> ELSE Head(ss) \o Flat(Tail(ss))
RECURSIVE SumLen(_)
SumLen(ss) == IF ss = <<>> THEN 0 ELSE Len(Head(ss)) + SumLen(Tail(ss))

\* ---- bit sets <-> bytes -------------------------------------------------
Bit(S, k) == IF k \in S THEN 1 ELSE 0
\* byte i (1 = most significant) of a w-byte field holding bit set S
ByteOf(S, w, i) ==
  LET base == 8 * (w - i) IN
    Bit(S, base)         + 2   * Bit(S, base + 1) + 4  * Bit(S, base + 2) + 8   * Bit(S, base + 3)
  + 16 * Bit(S, base + 4) + 32 * Bit(S, base + 5) + 64 * Bit(S, base + 6) + 128 * Bit(S, base + 7)
BitsToBytes(S, w) == [i \in 1..w |-> ByteOf(S, w, i)]
BitSetOfByte(v) == {k \in 0..7 : (v \div (2 ^ k)) % 2 = 1}
BytesToBits(b) == UNION { {8 * (Len(b) - i) + k : k \in BitSetOfByte(b[i])} : i \in 1..Len(b) }
ShiftBits(S, o) == {k + o : k \in S}

\* ---- searching ----------------------------------------------------------
OccursAt(hay, needle, i) == /\ i >= 1 /\ i + Len(needle) - 1 <= Len(hay)
                            /\ \A k \in 1..Len(needle) : hay[i + k - 1] = needle[k]
=============================================================================
