-------------------------------- MODULE OFGen --------------------------------
(* Scenario generator for the controller-originated messages (C01, C02, C03,  *)
(* C06, C13).  Enumeration is by families, each exhaustive in one dimension   *)
(* with the others minimal (DESIGN.md 3.3).  Every emitted scenario carries   *)
(* the API calls, the observers to run and the abstract tree of every         *)
(* observed object.  Tags select the value pattern (position-tagged, or the   *)
(* boundary patterns 1000 zero / 2000 ones / 3000 top bit / 4000 low bit).    *)
EXTENDS OFBuilder
CONSTANTS Family, Tags, Stride, Phase, Count, Seed
VARIABLE c
Obs4(n) == << <<"len", n>>, <<"marshal", n>>, <<"len", n>>, <<"marshal", n>> >>
Watch(els) == Flat([i \in DOMAIN els |-> << <<"len", els[i].n>>, <<"marshal", els[i].n>> >>])
TreeMap(els) == [x \in {els[i].n : i \in DOMAIN els} |-> els[CHOOSE i \in DOMAIN els : els[i].n = x].tree]
\* top: the message; watched: children also observed standalone (their encodings must appear inside the parent intact)
\* C13 quantifies over "any number of times and in any order": the order of the observers is varied by a deterministic
\* function of the scenario and the seed (the judge's predicates do not depend on the order)
WatchRev(els) == Flat([i \in DOMAIN els |-> << <<"marshal", els[Len(els) + 1 - i].n>>, <<"len", els[Len(els) + 1 - i].n>> >>])
ObsOrder(top, watched) ==
  LET h == (Len(top.ops) + 3 * Len(watched) + Seed) % 6  n == top.n  L == <<"len", n>>  M == <<"marshal", n>> IN
  CASE h = 0 -> Watch(watched) \o <<L, M, L, M>>
    [] h = 1 -> <<M, L, M, L>> \o Watch(watched)
    [] h = 2 -> <<L, L, M, M>> \o WatchRev(watched)
    [] h = 3 -> WatchRev(watched) \o <<M, M, L, L>>
    [] h = 4 -> <<M>> \o Watch(watched) \o <<L, M, L>>
    [] h = 5 -> <<L>> \o WatchRev(watched) \o <<M, L, M>> \o Watch(watched)
\* C13 also covers values that are sized / encoded while still being built (a resend after a refinement, a size check before
\* bundling): from the creation of the top-level object on, every API call is followed by a size query and an encoding of it.
\* Applied to every other scenario (by op count and seed) and to every top-down history.
IsNewOf(o, n) == o.op = "new" /\ o.as = n
MidObs(ops, n) == IF \A i \in DOMAIN ops : ~IsNewOf(ops[i], n) THEN ops
                  ELSE LET k == CHOOSE i \in DOMAIN ops : IsNewOf(ops[i], n) IN
                       Flat([i \in DOMAIN ops |-> IF i >= k /\ i < Len(ops) THEN <<ops[i], ObsOp(n)>> ELSE <<ops[i]>>])
\* the same for every object: each call / field assignment is followed by a size query and an encoding of the object it acted on
\* (objects that are not encodable are skipped by the interpreter)
TargetOf(o) == IF o.op = "new" THEN o.as ELSE o.obj
MidObsAll(ops) == Flat([i \in DOMAIN ops |-> IF i < Len(ops) /\ ops[i].op \in {"new", "set", "call"} THEN <<ops[i], ObsOp(TargetOf(ops[i]))>> ELSE <<ops[i]>>])
MaybeMidObs(top) == LET h == (Len(top.ops) + Seed) % 4 IN
                    IF h = 0 THEN MidObs(top.ops, top.n) ELSE IF h = 2 THEN MidObsAll(top.ops) ELSE top.ops
EmitK(fam, top, watched, kids) ==
  PrintT(ToJson([k |-> "build", fam |-> fam, top |-> top.n, ops |-> MaybeMidObs(top),
                 observe |-> ObsOrder(top, watched),
                 kids |-> kids,
                 specwalk |-> WalkMsg(Enc(top.tree)),       \* design-level check: the two halves of OFWire.tla (Enc and Walk) agree on this message
                 trees |-> TreeMap(<<top>> \o watched)]))
Emit(fam, top, watched) == EmitK(fam, top, watched, [i \in DOMAIN watched |-> watched[i].n])
Sel(k) == k % Stride = Phase
ActSeqIn(cont, n, acts, tag) ==   \* a top-level message holding the action list in container kind cont
  CASE cont = "apply" -> FlowModEl(n, 0, <<>>, <<InstrActs(Nm(n, 50), "apply", [i \in DOMAIN acts |-> <<acts[i], FALSE>>])>>, tag)
    [] cont = "write" -> FlowModEl(n, 1, <<>>, <<InstrActs(Nm(n, 50), "write", [i \in DOMAIN acts |-> <<acts[i], FALSE>>])>>, tag)
    [] cont = "bucket" -> GroupModEl(n, 0, tag % 4, <<BucketEl(Nm(n, 50), acts, tag)>>, tag)
    [] cont = "pktout" -> PacketOutEl(n, acts, 9, tag)
    [] cont = "ct" -> FlowModEl(n, 0, <<>>, <<InstrActs(Nm(n, 50), "apply", << <<CtEl(Nm(n, 60), acts, tag, FALSE), FALSE>> >>)>>, tag)
    [] cont = "ctz" -> FlowModEl(n, 2, <<>>, <<InstrActs(Nm(n, 50), "apply", << <<CtEl(Nm(n, 60), acts, tag, TRUE), FALSE>> >>)>>, tag)
Conts == {"apply", "write", "bucket", "pktout", "ct", "ctz"}
NextA1 == \E cont \in Conts, kind \in LeafActKinds, tag \in Tags :
            LET a == LeafAct("a1", kind, tag) IN
            /\ c' = <<cont, kind, tag>>
            /\ Emit("A1", ActSeqIn(cont, "m", <<a>>, tag), <<a>>)
KindSeq == LeafActSeq
NextA2 == \E cont \in Conts, i \in DOMAIN KindSeq, j \in DOMAIN KindSeq, tag \in Tags :
            LET a == LeafAct("a1", KindSeq[i], tag)  b == LeafAct("a2", KindSeq[j], tag + 20) IN
            /\ Sel(i * 7 + j * 3 + tag)
            /\ c' = <<cont, i, j, tag>>
            /\ Emit("A2", ActSeqIn(cont, "m", <<a, b>>, tag), <<a, b>>)
MFAll(n, tag) == [k \in 1..NMF |-> k]
NextM1 == \E k \in 1..NMF, masked \in BOOLEAN, tag \in Tags, cmd \in {0, 3} :
            LET f == MF("f1", k, tag, masked) IN
            /\ (masked => MFTable[k][4] # 0)
            /\ c' = <<k, masked, tag, cmd>>
            /\ Emit("M1", FlowModEl("m", cmd, <<f>>, <<>>, tag), <<f>>)
NextM2 == \E k1 \in 1..NMF, k2 \in 1..NMF, m1 \in BOOLEAN, m2 \in BOOLEAN, tag \in Tags :
            LET f == MF("f1", k1, tag, m1)  g == MF("f2", k2, tag + 30, m2) IN
            /\ (m1 => MFTable[k1][4] # 0) /\ (m2 => MFTable[k2][4] # 0)
            /\ Sel(k1 * 5 + k2 + tag)
            /\ c' = <<k1, k2, m1, m2, tag>>
            /\ Emit("M2", FlowModEl("m", 0, <<f, g>>, <<Goto("g", tag)>>, tag), <<f, g>>)
NextMR == \/ \E idx \in 0..15, f \in {0, 5, 31}, w \in {1, 8, 32}, tag \in Tags :
               /\ f + w <= 32
               /\ c' = <<idx, f, w, tag>>
               /\ LET r == RegField("f1", idx, tag, f, f + w - 1) IN Emit("MR", FlowModEl("m", 0, <<r>>, <<>>, tag), <<r>>)
          \/ \E name \in {"NXM_NX_REG5", "NXM_NX_CT_MARK", "NXM_NX_TUN_ID", "NXM_NX_XXREG1", "NXM_NX_CT_LABEL", "OXM_OF_ETH_DST", "NXM_NX_CT_ZONE"},
                form \in {"plain", "start", "range", "shift", "noshift"}, start \in {0, 1, 4, 8, 9, 15}, dbits \in {{0}, {0, 2}, {1, 3, 6}, {0, 7}}, tag \in Tags :
               /\ start + SetMax(dbits) + 1 <= 8 * WidthOf(name)                     \* generic builder: every calling convention x window position
               /\ (form = "plain" => start = 0)
               /\ Sel(start + Cardinality(dbits))
               /\ c' = <<"gen", name, form, start, dbits, tag>>
               /\ LET r == GenField("f1", name, dbits, start, form) IN Emit("MR", FlowModEl("m", 0, <<r, MF("f2", 1, tag, FALSE)>>, <<>>, tag), <<r>>)
          \/ \E idx \in 0..7, len \in {4, 8, 12, 64, 124}, masked \in BOOLEAN, tag \in Tags :      \* tunnel metadata: variable length, with a following field
               /\ (masked => len <= 64)
               /\ c' = <<"tun", idx, len, masked, tag>>
               /\ LET r == TunMetaEl("f1", idx, len, masked, tag) IN Emit("MR", FlowModEl("m", 0, <<r, MF("f2", 1, tag, FALSE)>>, <<>>, tag), <<r>>)
InstrOf(kind, n, tag) ==
  CASE kind = "goto" -> Goto(n, tag) [] kind = "meta" -> WriteMeta(n, tag)
    [] kind = "apply0" -> InstrActs(n, "apply", <<>>)
    [] kind = "apply1" -> InstrActs(n, "apply", << <<LeafAct(Nm(n, 1), "output", tag), FALSE>> >>)
    [] kind = "write1" -> InstrActs(n, "write", << <<LeafAct(Nm(n, 1), "group", tag), FALSE>> >>)
    [] kind = "apply2" -> InstrActs(n, "apply", << <<LeafAct(Nm(n, 1), "setfield", tag), FALSE>>, <<LeafAct(Nm(n, 2), "note3", tag), FALSE>> >>)
IKinds == {"goto", "meta", "apply0", "apply1", "write1", "apply2"}
NextI == \E cmd \in 0..4, len \in 0..3, tag \in Tags :
         \E ks \in [1..len -> IKinds] :
            LET is == [i \in 1..len |-> InstrOf(ks[i], "i" \o ToString(i), tag + 3 * i)] IN
            /\ (len = 3 => cmd \in {0, 3})
            /\ c' = <<cmd, ks, tag>>
            /\ Emit("I", FlowModEl("m", cmd, <<MF("f1", 4, tag, FALSE)>>, is, tag), is)
NextG == \E cmd \in 0..2, gt \in 0..3, nb \in 0..2, na \in 0..2, tag \in Tags :
            LET bs == [i \in 1..nb |-> BucketEl("b" \o ToString(i), [j \in 1..na |-> LeafAct("b" \o ToString(i) \o "a" \o ToString(j),
                                          (<<"output", "setfield", "note6">>)[1 + ((i + j) % 3)], tag + i + 2 * j)], tag + 7 * i)] IN
            /\ c' = <<cmd, gt, nb, na, tag>>
            /\ Emit("G", GroupModEl("m", cmd, gt, bs, tag), bs)
NextS == \E tag \in Tags :
           \/ \E kind \in SimpleKinds : c' = <<kind, tag>> /\ Emit("S", SimpleEl("m", kind, tag), <<>>)
           \/ \E kind \in MpKinds, nf \in 0..2 :
                /\ (kind \notin {"flow", "aggregate"} => nf = 0)
                /\ c' = <<kind, nf, tag>>
                /\ Emit("S", MpReqEl("m", kind, [i \in 1..nf |-> MF("f" \o ToString(i), 1 + ((tag + 5 * i) % NMF), tag + i, FALSE)], tag), <<>>)
           \/ \E k \in 0..3 : c' = <<"tlvmod", k, tag>> /\ Emit("S", TlvModEl("m", k, tag), <<>>)
           \/ c' = <<"bundlectrl", tag>> /\ Emit("S", BundleCtrlEl("m", tag), <<>>)
InnerMsg(kind, n, tag) ==
  CASE kind \in SimpleKinds -> SimpleEl(n, kind, tag)
    [] kind = "flowmod" -> FlowModEl(n, tag % 5, <<MF(Nm(n, 1), 1 + (tag % NMF), tag, FALSE)>>, <<InstrOf("apply2", Nm(n, 2), tag)>>, tag)
    [] kind = "groupmod" -> GroupModEl(n, tag % 3, 0, <<BucketEl(Nm(n, 1), <<LeafAct(Nm(n, 2), "output", tag)>>, tag)>>, tag)
    [] kind = "pktout" -> PacketOutEl(n, <<LeafAct(Nm(n, 1), "output", tag)>>, 11, tag)
    [] kind = "mpflow" -> MpReqEl(n, "flow", <<>>, tag)
    [] kind = "tlvmod" -> TlvModEl(n, 2, tag)
    [] kind = "bundlectrl" -> BundleCtrlEl(n, tag)
    [] kind = "bundleadd" -> BundleAddEl(n, FlowModEl(Nm(n, 7), 0, <<>>, <<>>, tag + 1), tag + 2)
NextW == \E kind \in SimpleKinds \cup {"flowmod", "groupmod", "pktout", "mpflow", "tlvmod", "bundlectrl", "bundleadd"}, tag \in Tags :
            LET inner == InnerMsg(kind, "in", tag) IN
            \/ /\ c' = <<kind, tag>>
               /\ Emit("W", BundleAddEl("m", inner, tag), <<inner>>)
            \/ \E np \in 1..2 :            \* with experimenter properties: the bundled message is then padded to 8 bytes
                 /\ c' = <<kind, np, tag>>
                 /\ Emit("W", BundleAddPropsEl("m", inner, np, tag), <<inner>>)
\* pipelined messages: three messages are built and encoded one after the other before any of them is "sent" (a controller batching
\* requests); every encoding that was handed out must still be intact at the end (the harness compares each returned byte string
\* with the copy it took when it was returned)
PLSeq == <<"echoreq", "echorep", "featreq", "confreq", "barrier", "hello", "hello3e", "setconfig", "portmod", "setctrlid", "tlvreq",
           "desc", "flow", "aggregate", "table", "portdesc", "flowmod", "groupmod", "pktout", "tlvmod", "bundlectrl", "bundleadd">>
PLMsg(kind, n, tag) == IF kind \in MpKinds THEN MpReqEl(n, kind, <<>>, tag) ELSE InnerMsg(kind, n, tag)
NextPL == \E i \in DOMAIN PLSeq, j \in DOMAIN PLSeq, tag \in Tags :
            LET m1 == PLMsg(PLSeq[i], "p1", tag)  m2 == PLMsg(PLSeq[j], "p2", tag + 40)  m3 == PLMsg(PLSeq[i], "p3", tag + 80)
                top == [n |-> m3.n, tree |-> m3.tree, ops |-> m1.ops \o m2.ops \o m3.ops] IN
            /\ Sel(i * 3 + j)
            /\ c' = <<i, j, tag>>
            /\ EmitK("PL", top, <<m1, m2>>, <<>>)
NextO == \E p1 \in BOOLEAN, p2 \in BOOLEAN, p3 \in BOOLEAN, n \in 1..3, kind \in {"apply", "write"}, tag \in Tags :
            LET ps == <<p1, p2, p3>>
                adds == [i \in 1..n |-> <<LeafAct("a" \o ToString(i), (<<"output", "note3", "regload", "setfield">>)[1 + ((i + tag) % 4)], tag + 11 * i), ps[i]>>] IN
            /\ (n < 3 => ~p3) /\ (n < 2 => ~p2)
            /\ c' = <<ps, n, kind, tag>>
            /\ Emit("O", FlowModEl("m", 0, <<>>, <<InstrActs("i1", kind, adds)>>, tag), <<>>)
NextP == \E na \in 0..2, dl \in {0, 1, 7, 8, 60, 1500}, tag \in Tags :
            /\ c' = <<na, dl, tag>>
            /\ Emit("P", PacketOutEl("m", [i \in 1..na |-> LeafAct("a" \o ToString(i), (<<"output", "setfieldm">>)[i], tag + i)], dl, tag), <<>>)
\* the largest shapes that still fit the 16-bit length
NextB == \E shape \in {"pktout-data", "flowmod-actions", "groupmod-buckets", "match-fields"}, tag \in Tags :
            /\ c' = <<shape, tag>>
            /\ CASE shape = "pktout-data" -> Emit("B", PacketOutEl("m", <<LeafAct("a1", "output", tag)>>, 65535 - 24 - 16, tag), <<>>)
                 [] shape = "flowmod-actions" ->
                      Emit("B", FlowModEl("m", 0, <<>>, <<InstrActs("i1", "apply", [i \in 1..4000 |-> <<LeafAct("a" \o ToString(i), "output", i), FALSE>>])>>, tag), <<>>)
                 [] shape = "groupmod-buckets" ->
                      Emit("B", GroupModEl("m", 0, 1, [i \in 1..1500 |-> BucketEl("b" \o ToString(i), <<LeafAct("b" \o ToString(i) \o "a", "group", i)>>, i)], tag), <<>>)
                 [] shape = "match-fields" ->
                      Emit("B", FlowModEl("m", 0, [i \in 1..600 |-> MF("f" \o ToString(i), 1 + (i % NMF), i, FALSE)], <<>>, tag), <<>>)

\* learn specs: every header kind x immediate / field widths, alone and followed by a second spec
LKinds == {"mv", "mf", "lv", "lf", "of"}
LBits == {1, 7, 8, 9, 15, 16, 17, 24, 31, 32, 33, 48, 64, 65, 128}
NextL == \E k1 \in LKinds, b1 \in LBits, two \in BOOLEAN, tag \in Tags :
            LET s1 == LearnSpecEl("s1", k1, b1, tag)
                s2 == LearnSpecEl("s2", (<<"lf", "mv", "of", "lv", "mf">>)[1 + ((b1 + tag) % 5)], (<<16, 8, 13, 32, 1>>)[1 + (b1 % 5)], tag + 5)
                specs == IF two THEN <<s1, s2>> ELSE <<s1>>
                lrn == LearnEl("a1", specs, tag) IN
            /\ c' = <<k1, b1, two, tag>>
            /\ EmitK("L", ActSeqIn("apply", "m", <<lrn, LeafAct("a2", "output", tag)>>, tag), <<lrn>> \o specs, <<"a1">>)
\* optional parts: every presence combination of the NAT ranges; note and id-list lengths
NatParts == {"4min", "4max", "6min", "6max", "pmin", "pmax"}
NextN == \E tag \in Tags :
           \/ \E parts \in SUBSET NatParts :
                /\ c' = <<parts, tag>>
                /\ LET nat == NatEl("a1", parts, tag) IN
                   Emit("N", ActSeqIn("ct", "m", <<nat>>, tag), <<nat>>)
           \/ \E parts \in {{"4min"}, {"4min", "4max"}, {"6min", "pmin"}, {"4min", "4max", "pmin", "pmax"}, NatParts} :
                /\ c' = <<"twice", parts, tag>>
                /\ LET nat == NatTwiceEl("a1", parts, tag) IN Emit("N", ActSeqIn("ct", "m", <<nat>>, tag), <<nat>>)
           \/ \E l \in 1..3 : \E calls \in [1..l -> {"SetSNAT", "SetDNAT", "SetPersistent", "SetProtoHash", "SetRandom"}] :
                /\ c' = <<"natflags", calls, tag>>
                /\ LET nat == NatFlagsEl("a1", calls, tag) IN Emit("N", ActSeqIn("ct", "m", <<nat>>, tag), <<nat>>)
           \/ \E lastRange \in BOOLEAN :
                /\ c' = <<"ctzoneseq", lastRange, tag>>
                /\ LET ct == CtZoneSeqEl("a1", <<LeafAct("k1", "output", tag)>>, tag, lastRange) IN Emit("N", ActSeqIn("apply", "m", <<ct>>, tag), <<ct>>)
           \/ /\ c' = <<"ctforce", tag>>
              /\ LET ct == CtForceEl("a1", <<LeafAct("k1", "nat44", tag)>>, tag) IN Emit("N", ActSeqIn("apply", "m", <<ct>>, tag), <<ct>>)
           \/ \E len \in 0..17 :
                /\ c' = <<"note", len, tag>>
                /\ LET a == NoteEl("a1", len, tag) IN Emit("N", ActSeqIn("apply", "m", <<a, LeafAct("a2", "group", tag)>>, tag), <<a>>)
           \/ \E k \in 1..NMF :         \* two actions holding a field of the same kind with different values, both alive before anything is encoded
                /\ c' = <<"samefield", k, tag>>
                /\ LET f1 == MF("f1", k, tag, FALSE)  f2 == MF("f2", k, tag + 33, FALSE)
                       a == El("a1", [T |-> "NXActionRegLoad2", DstField |-> f1.tree], <<>>)
                       b == El("a2", [T |-> "NXActionRegLoad2", DstField |-> f2.tree], <<>>)
                       acts == <<[a EXCEPT !.ops = f1.ops \o f2.ops \o <<New("a1", "NewNXActionRegLoad2", <<Ref("f1")>>)>>],
                                 [b EXCEPT !.ops = <<New("a2", "NewNXActionRegLoad2", <<Ref("f2")>>)>>]>> IN
                   Emit("N", ActSeqIn("apply", "m", acts, tag), acts)
           \/ \E len \in {6, 14, 22}, z \in {1, 7, 8, 14} :
                /\ z <= len
                /\ c' = <<"notez", len, z, tag>>
                /\ LET a == NoteZEl("a1", len, z, tag) IN Emit("N", ActSeqIn("apply", "m", <<a, LeafAct("a2", "output", tag)>>, tag), <<a>>)
           \/ \E k \in 0..9 :
                /\ c' = <<"ids", k, tag>>
                /\ LET a == CntIDs("a1", k, tag) IN Emit("N", ActSeqIn("bucket", "m", <<a, LeafAct("a2", "group", tag)>>, tag), <<a>>)
\* top-down construction: a container is attached first and grows afterwards (framing and repeatability are still required;
\* the eager length bookkeeping of some adders makes nested lengths stale, so only C01 / C13 are judged on this family)
\* leaves: the innermost grown / attached elements in wire order; their standalone encodings must appear inside the message intact
EmitTDK(leaves, top) == PrintT(ToJson([k |-> "build", fam |-> "T", nospec |-> TRUE, top |-> top.n, ops |-> MidObs(top.ops, top.n),
                              observe |-> Flat([i \in DOMAIN leaves |-> << <<"len", leaves[i]>>, <<"marshal", leaves[i]>> >>]) \o Obs4(top.n) \o Obs4(top.n),
                              kids |-> leaves, trees |-> [x \in {top.n} |-> [T |-> top.tree.T]]]))
NextT == \E shape \in {"instr-then-actions", "ct-then-nat-ranges", "instr-then-ct-actions", "bucket-then-note", "pktout-then-learnspecs",
                       "instr-actions-after-flowmod", "ct-in-bucket-then-actions", "bucket-attached-then-ct-actions",
                       "bucket-attached-then-note-grows"}, tag \in Tags :
            /\ c' = <<shape, tag>>
            /\ LET out == LeafAct("o1", "output", tag)  grp == LeafAct("g1", "group", tag)
                   fm(ops) == El("m", [T |-> "FlowMod"], ops)
                   newFM == <<New("m", "NewFlowMod", <<>>), Set("m", "Xid", Xid(tag))>>
               IN
               CASE shape = "instr-actions-after-flowmod" ->
                      EmitTDK(<<"g1", "o1">>, fm(out.ops \o grp.ops \o newFM \o <<New("i", "NewInstrApplyActions", <<>>), Call("m", "AddInstruction", <<Ref("i")>>),
                                 Call("i", "AddAction", <<Ref("o1"), FALSE>>), Call("i", "AddAction", <<Ref("g1"), TRUE>>)>>))
                 [] shape = "instr-then-actions" ->
                      EmitTDK(<<"n1", "o1">>, fm(out.ops \o newFM \o <<New("i", "NewInstrWriteActions", <<>>), Call("m", "AddInstruction", <<Ref("i")>>),
                                 New("n1", "NewNXActionNote", <<>>), Call("i", "AddAction", <<Ref("n1"), FALSE>>), Set("n1", "Note", V(tag, 21)),
                                 Call("i", "AddAction", <<Ref("o1"), FALSE>>)>>))
                 [] shape = "ct-then-nat-ranges" ->
                      EmitTDK(<<"nat">>, fm(newFM \o <<New("i", "NewInstrApplyActions", <<>>), New("ct", "NewNXActionConnTrack", <<>>), New("nat", "NewNXActionCTNAT", <<>>),
                                 Call("ct", "AddAction", <<Ref("nat")>>), Call("nat", "SetRangeIPv4Min", <<V(tag, 4)>>), Call("nat", "SetRangeIPv4Max", <<V(tag + 1, 4)>>),
                                 Call("i", "AddAction", <<Ref("ct"), FALSE>>), Call("m", "AddInstruction", <<Ref("i")>>)>>))
                 [] shape = "instr-then-ct-actions" ->
                      EmitTDK(<<"o1", "g1">>, fm(out.ops \o grp.ops \o newFM \o <<New("i", "NewInstrApplyActions", <<>>), New("ct", "NewNXActionConnTrack", <<>>),
                                 Call("i", "AddAction", <<Ref("ct"), FALSE>>), Call("m", "AddInstruction", <<Ref("i")>>),
                                 Call("ct", "AddAction", <<Ref("o1")>>), Call("ct", "AddAction", <<Ref("g1")>>)>>))
                 [] shape = "bucket-then-note" ->
                      EmitTDK(<<"n1">>, El("m", [T |-> "GroupMod"], <<New("m", "NewGroupMod", <<>>), Set("m", "Xid", Xid(tag)), New("b", "NewBucket", <<>>),
                                 New("n1", "NewNXActionNote", <<>>), Call("b", "AddAction", <<Ref("n1")>>), Set("n1", "Note", V(tag, 30)),
                                 Call("m", "AddBucket", <<Ref("b")>>)>>))
                 [] shape = "ct-in-bucket-then-actions" ->
                      EmitTDK(<<"o1">>, El("m", [T |-> "GroupMod"], out.ops \o <<New("m", "NewGroupMod", <<>>), Set("m", "Xid", Xid(tag)), New("b", "NewBucket", <<>>),
                                 New("ct", "NewNXActionConnTrack", <<>>), Call("b", "AddAction", <<Ref("ct")>>), Call("ct", "AddAction", <<Ref("o1")>>),
                                 Call("m", "AddBucket", <<Ref("b")>>)>>))
                 \* the bucket is handed to the group-mod first (AddBucket takes it by value) and an action it holds by reference grows afterwards
                 [] shape = "bucket-attached-then-ct-actions" ->
                      EmitTDK(<<"o1", "g1">>, El("m", [T |-> "GroupMod"], out.ops \o grp.ops \o <<New("m", "NewGroupMod", <<>>), Set("m", "Xid", Xid(tag)), New("b", "NewBucket", <<>>),
                                 New("ct", "NewNXActionConnTrack", <<>>), Call("b", "AddAction", <<Ref("ct")>>), Call("m", "AddBucket", <<Ref("b")>>),
                                 Call("ct", "AddAction", <<Ref("o1")>>), Call("ct", "AddAction", <<Ref("g1")>>)>>))
                 [] shape = "bucket-attached-then-note-grows" ->
                      EmitTDK(<<"n1">>, El("m", [T |-> "GroupMod"], <<New("m", "NewGroupMod", <<>>), Set("m", "Xid", Xid(tag)), New("b", "NewBucket", <<>>),
                                 New("n1", "NewNXActionNote", <<>>), Call("b", "AddAction", <<Ref("n1")>>), Call("m", "AddBucket", <<Ref("b")>>),
                                 Set("n1", "Note", V(tag, 30))>>))
                 [] shape = "pktout-then-learnspecs" ->
                      LET sp == LearnSpecEl("s1", "lv", 24, tag) IN
                      EmitTDK(<<"l">>, El("m", [T |-> "PacketOut"], sp.ops \o <<New("m", "NewPacketOut", <<>>), Set("m", "Xid", Xid(tag)), New("l", "NewNXActionLearn", <<>>),
                                 Call("m", "AddAction", <<Ref("l")>>), Set("l", "LearnSpecs", <<Ref("s1")>>), Call("m", "SetData", <<V(tag, 10)>>)>>))

\* pseudo-random deep shapes: longer and mixed lists than the exhaustive families reach.  Choices are a deterministic hash of
\* (scenario index, position salt, Seed), so every scenario is reproducible from its index.
Rnd(i, salt, n) == (((i * 7919 + salt * 104729 + Seed * 611953) % 1000003) * 31 + salt) % n
KindAt(i, salt) == LeafActSeq[1 + Rnd(i, salt, Len(LeafActSeq))]
RandAct(n, i, salt, depth) ==
  LET r == Rnd(i, salt, 12)  tag == 1 + Rnd(i, salt + 1, 250) IN
  IF depth > 0 /\ r < 2
  THEN CtEl(n, [k \in 1..Rnd(i, salt + 2, 4) |-> LeafAct(Nm(n, k), KindAt(i, salt + 10 * k), 1 + Rnd(i, salt + 10 * k + 1, 250))], tag, r = 1)
  ELSE LeafAct(n, KindAt(i, salt + 3), tag)
RandActs(n, i, salt, maxn) == [k \in 1..Rnd(i, salt, maxn + 1) |-> RandAct(Nm(n, k), i, salt + 100 * k, 1)]
RandInstr(n, i, salt) ==
  LET k == Rnd(i, salt, 4) IN
  CASE k = 0 -> Goto(n, 1 + Rnd(i, salt + 1, 250)) [] k = 1 -> WriteMeta(n, 1 + Rnd(i, salt + 1, 250))
    [] OTHER -> LET acts == RandActs(n, i, salt + 5, 6) IN
                InstrActs(n, IF k = 2 THEN "apply" ELSE "write", [q \in DOMAIN acts |-> <<acts[q], Rnd(i, salt + 7 * q, 2) = 1>>])
RandFields(n, i, salt) == [k \in 1..Rnd(i, salt, 7) |-> LET row == 1 + Rnd(i, salt + 3 * k, NMF) IN
                             MF(Nm(n, k), row, 1 + Rnd(i, salt + 3 * k + 1, 250), Rnd(i, salt + 3 * k + 2, 2) = 1 /\ MFTable[row][4] # 0)]
NextR == \E i \in 1..Count :
           LET shape == Rnd(i, 1, 5)  tag == 1 + Rnd(i, 2, 250)
               fm == FlowModEl("m", Rnd(i, 3, 5), RandFields("f", i, 1000), [j \in 1..Rnd(i, 4, 5) |-> RandInstr("i" \o ToString(j), i, 2000 + 500 * j)], tag)
               el == CASE shape \in {0, 1} -> fm
                       [] shape = 2 -> GroupModEl("m", Rnd(i, 5, 3), Rnd(i, 6, 4),
                                                   [j \in 1..Rnd(i, 7, 5) |-> BucketEl("b" \o ToString(j), RandActs("b" \o ToString(j) \o "a", i, 3000 + 400 * j, 4), 1 + Rnd(i, 8 + j, 250))], tag)
                       [] shape = 3 -> PacketOutEl("m", RandActs("a", i, 5000, 6), (<<0, 1, 14, 60, 300>>)[1 + Rnd(i, 9, 5)], tag)
                       [] shape = 4 -> BundleAddPropsEl("w", fm, Rnd(i, 10, 3), tag) IN
           /\ c' = <<i>>
           /\ Emit("R", el, <<>>)
Init == c = <<>>
Next == c = <<>> /\ CASE Family = "A1" -> NextA1 [] Family = "A2" -> NextA2 [] Family = "M1" -> NextM1 [] Family = "M2" -> NextM2
                      [] Family = "MR" -> NextMR [] Family = "I" -> NextI [] Family = "G" -> NextG [] Family = "S" -> NextS
                      [] Family = "PL" -> NextPL [] Family = "W" -> NextW [] Family = "O" -> NextO [] Family = "P" -> NextP [] Family = "B" -> NextB
                      [] Family = "L" -> NextL [] Family = "N" -> NextN [] Family = "T" -> NextT [] Family = "R" -> NextR
Spec == Init /\ [][Next]_c
=============================================================================
