---------------------------- MODULE BitRangeGen ----------------------------
(* Complete enumeration for C16: Family "R" all 528 ranges, Family "O" all   *)
(* 65 536 (offset, width) pairs, each with the word the format assigns.      *)
EXTENDS BitRange
CONSTANT Family
\* design-level facts (TLC evaluates them on the whole domain at start-up; decoding being a left inverse makes the word injective)
InverseOK == \A p \in OfsN : LET w == OfsNbitsWord(p[1], p[2]) IN
               /\ w \in 0..65535 /\ DecodeOfs(w) = p[1] /\ DecodeNbits(w) = p[2]
MaskOK == \A r \in Ranges : /\ BytesToBits(Mask32(r[1], r[2])) = r[1]..r[2]
                            /\ Cardinality(BytesToBits(Mask32(r[1], r[2]))) = r[2] - r[1] + 1
VARIABLE c
Init == c = <<>>
NextR == \E r \in Ranges : c' = r /\ PrintT(ToJson([k |-> "range", first |-> r[1], last |-> r[2],
                                                   reg |-> (r[1] + r[2]) % 16, val |-> <<161, 178, 195, 212>>]))
NextO == \E p \in OfsN : c' = p /\ PrintT(ToJson([k |-> "ofsn", ofs |-> p[1], n |-> p[2],
                                                   word |-> OfsNbits(p[1], p[2])]))
Next == c = <<>> /\ (IF Family = "R" THEN NextR ELSE NextO)
Spec == Init /\ [][Next]_c
ASSUME InverseOK
ASSUME MaskOK
=============================================================================
