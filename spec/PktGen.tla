-------------------------------- MODULE PktGen --------------------------------
(* Generator of well-formed packet headers for C09 (and the packet part of   *)
(* C06): every element is [n, tree, ops] as in OFBuilder.tla.  Families      *)
(* enumerate each packed 8/16-bit group exhaustively (strided in the quick   *)
(* tier), the payload demultiplexing table, IPv6 extension-header chains in  *)
(* every order, and option / source / record counts.                         *)
EXTENDS PktWire, Integers, Sequences, FiniteSets
CONSTANTS Family, Stride, Phase
VARIABLE c
New(as, ctor, args) == [op |-> "new", as |-> as, ctor |-> ctor, args |-> args]
NewT(as, type) == [op |-> "new", as |-> as, type |-> type]
Set(obj, f, val) == [op |-> "set", obj |-> obj, f |-> f, val |-> val]
Ref(n) == [ref |-> n]
El(n, tree, ops) == [n |-> n, tree |-> tree, ops |-> ops]
Nm(n, i) == n \o "_" \o ToString(i)
V(tag, w) == [j \in 1..w |-> (tag * 37 + j * 11 + 5) % 256]
Buf(b) == [T |-> "Buffer", B |-> b]
NilT == [T |-> "nil"]
Sel(k) == k % Stride = Phase
SetAll(n, t, fields) == [i \in DOMAIN fields |-> Set(n, fields[i], t[fields[i]])]
RefsOf(els) == [i \in DOMAIN els |-> Ref(els[i].n)]
TreesOf(els) == [i \in DOMAIN els |-> els[i].tree]
OpsOf(els) == Flat([i \in DOMAIN els |-> els[i].ops])

BufEl(n, b) == El(n, Buf(b), <<New(n, "NewBuffer", <<b>>)>>)
IcmpEl(n, tag, dl) ==
  LET t == [T |-> "ICMP", Type |-> V(tag, 1), Code |-> V(tag + 1, 1), Checksum |-> V(tag + 2, 2), Data |-> V(tag + 3, dl)] IN
  El(n, t, <<New(n, "NewICMP", <<>>)>> \o SetAll(n, t, <<"Type", "Code", "Checksum", "Data">>))
UdpEl(n, tag, dl) ==
  LET t == [T |-> "UDP", PortSrc |-> V(tag, 2), PortDst |-> V(tag + 1, 2), Length |-> BE16(8 + dl), Checksum |-> V(tag + 2, 2), Data |-> V(tag + 3, dl)] IN
  El(n, t, <<New(n, "NewUDP", <<>>)>> \o SetAll(n, t, <<"PortSrc", "PortDst", "Length", "Checksum", "Data">>))
TcpEl(n, tag, off, flags, dl) ==
  LET t == [T |-> "TCP", PortSrc |-> V(tag, 2), PortDst |-> V(tag + 1, 2), SeqNum |-> V(tag + 2, 4), AckNum |-> V(tag + 3, 4), HdrLen |-> <<off>>,
            Code |-> <<flags>>, WinSize |-> V(tag + 4, 2), Checksum |-> V(tag + 5, 2), UrgFlag |-> V(tag + 6, 2), Data |-> V(tag + 7, dl)] IN
  El(n, t, <<New(n, "NewTCP", <<>>)>> \o SetAll(n, t, <<"PortSrc", "PortDst", "SeqNum", "AckNum", "HdrLen", "Code", "WinSize", "Checksum", "UrgFlag", "Data">>))
ArpEl(n, tag, oper) ==
  LET t == [T |-> "ARP", HWType |-> <<0, 1>>, ProtoType |-> <<8, 0>>, HWLength |-> <<6>>, ProtoLength |-> <<4>>, Operation |-> <<0, oper>>,
            HWSrc |-> V(tag, 6), IPSrc |-> V(tag + 1, 4), HWDst |-> V(tag + 2, 6), IPDst |-> V(tag + 3, 4)] IN
  El(n, t, <<New(n, "NewARP", <<oper>>)>> \o SetAll(n, t, <<"HWSrc", "IPSrc", "HWDst", "IPDst">>))
\* payload element for a transport protocol number
\* the payload a sender puts behind an IPv4 header / behind the IPv6 header chain for a protocol number
L4v4(n, proto, tag, dl) == CASE proto = 1 -> IcmpEl(n, tag, dl) [] proto = 17 -> UdpEl(n, tag, dl) [] OTHER -> BufEl(n, V(tag, dl))
L4(n, proto, tag, dl) == CASE proto = 58 -> IcmpEl(n, tag, dl) [] proto = 17 -> UdpEl(n, tag, dl) [] OTHER -> BufEl(n, V(tag, dl))
Ip4El(n, ver, ihl, dscp, ecn, flags, frag, proto, tag, dl) ==
  LET pay == L4v4(Nm(n, 1), proto, tag + 20, dl)
      t == [T |-> "IPv4", Version |-> <<ver>>, IHL |-> <<ihl>>, DSCP |-> <<dscp>>, ECN |-> <<ecn>>, Length |-> BE16(4 * ihl + Len(EncPayload(pay.tree))),
            Id |-> V(tag, 2), Flags |-> <<0, flags>>, FragmentOffset |-> BE16(frag), TTL |-> V(tag + 1, 1), Protocol |-> <<proto>>,
            Checksum |-> V(tag + 2, 2), NWSrc |-> V(tag + 3, 4), NWDst |-> V(tag + 4, 4), Options |-> Buf(V(tag + 5, 4 * (ihl - 5))), Data |-> pay.tree] IN
  El(n, t, pay.ops \o <<New(n, "NewIPv4", <<>>)>> \o SetAll(n, t, <<"Version", "IHL", "DSCP", "ECN", "Length", "Id", "Flags", "FragmentOffset", "TTL",
                                                                    "Protocol", "Checksum", "NWSrc", "NWDst">>)
       \o <<Set(n, "Options", t.Options.B), Set(n, "Data", Ref(pay.n))>>)
\* IPv4 carrying the given bytes as opaque payload of protocol proto
Ip4Raw(n, proto, bytes, tag) ==
  LET e == Ip4El(n, 4, 5, 0, 0, 0, 0, proto, tag, 0)
      pay == BufEl(Nm(n, 1), bytes) IN
  El(n, [e.tree EXCEPT !.Data = pay.tree, !.Length = BE16(20 + Len(bytes))],
     pay.ops \o SelectSeq(e.ops, LAMBDA o : ~(o.op = "new" /\ o.as = Nm(n, 1)) /\ ~(o.op = "set" /\ o.f = "Length"))
       \o <<Set(n, "Length", BE16(20 + Len(bytes)))>>)
\* an option whose Data is left unset (nil): the encoder zero-fills the declared length (PadN built by its length only)
OptNilEl(n, type, len) == El(n, [T |-> "Option", Type |-> <<type>>, Length |-> <<len>>, Data |-> <<>>], <<NewT(n, "Option"), Set(n, "Type", <<type>>), Set(n, "Length", <<len>>)>>)
OptEl(n, type, len, tag) == LET t == [T |-> "Option", Type |-> <<type>>, Length |-> <<len>>, Data |-> V(tag, len)] IN
  El(n, t, <<NewT(n, "Option")>> \o SetAll(n, t, <<"Type", "Length", "Data">>))
\* hop-by-hop header holding nopt options of 4 data bytes (6 bytes each) padded by a PadN option to the 8-byte unit
HbhEl(n, next, nopt, tag) ==
  LET used == 2 + 6 * nopt
      hel == (used + 7) \div 8 - 1 + (IF used % 8 = 1 \/ used % 8 = 7 THEN 1 ELSE 0)     \* leave room for a PadN (>= 2 bytes) or none
      total == 8 * (hel + 1)
      padlen == total - used
      opts == [i \in 1..nopt |-> OptEl(Nm(n, i), 5 + i, 4, tag + i)] \o (IF padlen >= 2 THEN <<OptEl(Nm(n, 9), 1, padlen - 2, 1000)>> ELSE <<>>)
      t == [T |-> "HopByHopHeader", NextHeader |-> <<next>>, HEL |-> <<hel>>, Options |-> TreesOf(opts)] IN
  El(n, t, OpsOf(opts) \o <<New(n, "NewHopByHopHeader", <<>>), Set(n, "NextHeader", <<next>>), Set(n, "HEL", <<hel>>), Set(n, "Options", RefsOf(opts))>>)
RtEl(n, next, hel, tag) ==
  LET t == [T |-> "RoutingHeader", NextHeader |-> <<next>>, HEL |-> <<hel>>, RoutingType |-> V(tag, 1), SegmentsLeft |-> V(tag + 1, 1),
            Data |-> Buf(V(tag + 2, 8 * (hel + 1) - 4))] IN
  El(n, t, <<New(n, "NewRoutingHeader", <<>>)>> \o SetAll(n, t, <<"NextHeader", "HEL", "RoutingType", "SegmentsLeft">>) \o <<Set(n, "Data", t.Data.B)>>)
FragEl(n, next, off, more, tag) ==
  LET t == [T |-> "FragmentHeader", NextHeader |-> <<next>>, Reserved |-> <<0>>, FragmentOffset |-> BE16(off), MoreFragments |-> more, Identification |-> V(tag, 4)] IN
  El(n, t, <<New(n, "NewFragmentHeader", <<>>)>> \o SetAll(n, t, <<"NextHeader", "Reserved", "FragmentOffset", "MoreFragments", "Identification">>))
ExtCode(k) == CASE k = "hbh" -> 0 [] k = "rt" -> 43 [] k = "fr" -> 44
\* IPv6 with the extension headers of `chain` (a sequence of distinct kinds) in that order, then the payload of protocol `proto`
Ip6El(n, ver, tc, fl, chain, proto, tag, dl, nopt, fragoff, more) ==
  LET pay == L4(Nm(n, 1), proto, tag + 30, dl)
      nextOf(i) == IF i = Len(chain) THEN proto ELSE ExtCode(chain[i + 1])
      hb == IF \E i \in DOMAIN chain : chain[i] = "hbh" THEN <<HbhEl(Nm(n, 2), nextOf(CHOOSE i \in DOMAIN chain : chain[i] = "hbh"), nopt, tag)>> ELSE <<>>
      rt == IF \E i \in DOMAIN chain : chain[i] = "rt" THEN <<RtEl(Nm(n, 3), nextOf(CHOOSE i \in DOMAIN chain : chain[i] = "rt"), tag % 3, tag + 7)>> ELSE <<>>
      fr == IF \E i \in DOMAIN chain : chain[i] = "fr" THEN <<FragEl(Nm(n, 4), nextOf(CHOOSE i \in DOMAIN chain : chain[i] = "fr"), fragoff, more, tag + 9)>> ELSE <<>>
      first == IF chain = <<>> THEN proto ELSE ExtCode(chain[1])
      t0 == [T |-> "IPv6", Version |-> <<ver>>, TrafficClass |-> <<tc>>, FlowLabel |-> <<0, fl \div 65536, (fl \div 256) % 256, fl % 256>>, Length |-> V(tag, 2),
             NextHeader |-> <<first>>, HopLimit |-> V(tag + 1, 1), NWSrc |-> V(tag + 2, 16), NWDst |-> V(tag + 3, 16),
             HbhHeader |-> (IF hb = <<>> THEN NilT ELSE hb[1].tree), RoutingHeader |-> (IF rt = <<>> THEN NilT ELSE rt[1].tree),
             FragmentHeader |-> (IF fr = <<>> THEN NilT ELSE fr[1].tree), Data |-> pay.tree] IN
  El(n, t0, pay.ops \o OpsOf(hb) \o OpsOf(rt) \o OpsOf(fr) \o <<NewT(n, "IPv6")>>
       \o SetAll(n, t0, <<"Version", "TrafficClass", "FlowLabel", "Length", "NextHeader", "HopLimit", "NWSrc", "NWDst">>)
       \o (IF hb = <<>> THEN <<>> ELSE <<Set(n, "HbhHeader", Ref(hb[1].n))>>) \o (IF rt = <<>> THEN <<>> ELSE <<Set(n, "RoutingHeader", Ref(rt[1].n))>>)
       \o (IF fr = <<>> THEN <<>> ELSE <<Set(n, "FragmentHeader", Ref(fr[1].n))>>) \o <<Set(n, "Data", Ref(pay.n))>>)
\* the extension headers (in chain order) and the payload of Ip6El as elements of their own (the very elements Ip6El builds): their
\* standalone encodings must appear inside the IPv6 packet whole and in this order
Ip6Parts(n, chain, proto, tag, dl, nopt, fragoff, more) ==
  [k \in 1..(Len(chain) + 1) |->
     IF k = Len(chain) + 1 THEN L4(Nm(n, 1), proto, tag + 30, dl)
     ELSE LET nxt == IF k = Len(chain) THEN proto ELSE ExtCode(chain[k + 1]) IN
          CASE chain[k] = "hbh" -> HbhEl(Nm(n, 2), nxt, nopt, tag)
            [] chain[k] = "rt" -> RtEl(Nm(n, 3), nxt, tag % 3, tag + 7)
            [] chain[k] = "fr" -> FragEl(Nm(n, 4), nxt, fragoff, more, tag + 9)]
EthEl(n, pcp, dei, vid, etype, pay, tag) ==
  LET t == [T |-> "Ethernet", Delimiter |-> <<0>>, HWDst |-> V(tag, 6), HWSrc |-> V(tag + 1, 6),
            VLANID |-> [T |-> "VLAN", TPID |-> (IF pcp = 0 /\ dei = 0 /\ vid = 0 THEN <<0, 0>> ELSE <<129, 0>>), PCP |-> <<pcp>>, DEI |-> <<dei>>, VID |-> BE16(vid)], Ethertype |-> etype, Data |-> pay.tree] IN
  El(n, t, pay.ops \o <<New(n, "NewEthernet", <<>>), Set(n, "HWDst", t.HWDst), Set(n, "HWSrc", t.HWSrc), Set(n, "VLANID.TPID", t.VLANID.TPID), Set(n, "VLANID.PCP", <<pcp>>),
                        Set(n, "VLANID.DEI", <<dei>>), Set(n, "VLANID.VID", BE16(vid)), Set(n, "Ethertype", etype), Set(n, "Data", Ref(pay.n))>>)
Igmp12El(n, kind, tag) ==
  LET ctor == (<<"NewIGMPv1Query", "NewIGMPv1Report", "NewIGMPv2Report", "NewIGMPv2Leave">>)[kind]
      ty == (<<17, 18, 22, 23>>)[kind]
      t == [T |-> "IGMPv1or2", Type |-> <<ty>>, MaxResponseTime |-> <<0>>, Checksum |-> V(tag + 1, 2), GroupAddress |-> V(tag, 4)] IN
  El(n, t, <<New(n, ctor, <<V(tag, 4)>>), Set(n, "Checksum", t.Checksum)>>)
Igmp2QueryEl(n, tag) ==
  LET t == [T |-> "IGMPv1or2", Type |-> <<17>>, MaxResponseTime |-> V(tag + 2, 1), Checksum |-> V(tag + 1, 2), GroupAddress |-> V(tag, 4)] IN
  El(n, t, <<New(n, "NewIGMPv2Query", <<V(tag, 4), V(tag + 2, 1)>>), Set(n, "Checksum", t.Checksum)>>)
Igmp3QueryEl(n, s, qrv, nsrc, tag) ==
  LET srcs == [i \in 1..nsrc |-> V(tag + 10 + i, 4)]
      t == [T |-> "IGMPv3Query", Type |-> <<17>>, MaxResponseTime |-> V(tag, 1), Checksum |-> V(tag + 1, 2), GroupAddress |-> V(tag + 2, 4),
            SuppressRouterProcessing |-> s, RobustnessValue |-> <<qrv>>, IntervalTime |-> V(tag + 3, 1), NumberOfSources |-> BE16(nsrc), SourceAddresses |-> srcs] IN
  El(n, t, <<New(n, "NewIGMPv3Query", <<V(tag + 2, 4), V(tag, 1), V(tag + 3, 1), srcs>>), Set(n, "Checksum", t.Checksum),
             Set(n, "SuppressRouterProcessing", s), Set(n, "RobustnessValue", <<qrv>>)>>)
GroupRecEl(n, rtype, nsrc, tag) ==
  LET srcs == [i \in 1..nsrc |-> V(tag + 20 + i, 4)]
      t == [T |-> "IGMPv3GroupRecord", Type |-> <<rtype>>, AuxDataLen |-> <<0>>, NumberOfSources |-> BE16(nsrc), MulticastAddress |-> V(tag, 4),
            SourceAddresses |-> srcs, AuxData |-> <<>>] IN
  El(n, t, <<New(n, "NewGroupRecord", <<<<rtype>>, V(tag, 4), srcs>>)>>)
\* a group record carrying auxiliary data words (IGMPv3 says none are defined, the format allows them)
GroupRecAuxEl(n, rtype, nsrc, naux, tag) ==
  LET g == GroupRecEl(n, rtype, nsrc, tag)
      aux == [i \in 1..naux |-> V(tag + 40 + i, 4)] IN
  El(n, [g.tree EXCEPT !.AuxDataLen = <<naux>>, !.AuxData = aux], g.ops \o <<Set(n, "AuxDataLen", <<naux>>), Set(n, "AuxData", aux)>>)
Igmp3ReportEl(n, recs, tag) ==
  LET t == [T |-> "IGMPv3MembershipReport", Type |-> <<34>>, Reserved |-> <<0>>, Checksum |-> V(tag, 2), Reserved2 |-> <<0, 0>>, NumberOfGroups |-> BE16(Len(recs)),
            GroupRecords |-> TreesOf(recs)] IN
  El(n, t, OpsOf(recs) \o <<New(n, "NewIGMPv3Report", <<RefsOf(recs)>>), Set(n, "Checksum", t.Checksum)>>)

Emit(fam, top, parts) ==
  PrintT(ToJson([k |-> "pkt", fam |-> fam, top |-> top.n, ops |-> top.ops, rt |-> [i \in DOMAIN parts |-> parts[i].n] \o <<top.n>>,
                 entry |-> top.tree.T, kind |-> top.tree.T, frame |-> EncPkt(top.tree),
                 trees |-> [x \in {top.n} \cup {parts[i].n : i \in DOMAIN parts} |->
                              IF x = top.n THEN top.tree ELSE parts[CHOOSE i \in DOMAIN parts : parts[i].n = x].tree]]))
SmallPay == BufEl("p", <<222, 173, 190, 239>>)
\* every 802.1Q tag control word (priority, DEI, VLAN id), including priority tags (VLAN id 0) and the untagged frame
NextVLAN == \E tci \in 0..65535 :
              /\ (Sel(tci) \/ tci % 4096 = 0 \/ tci % 4096 = 4095)
              /\ c' = <<tci>>
              /\ Emit("VLAN", EthEl("e", tci \div 8192, (tci \div 4096) % 2, tci % 4096, <<136, 181>>, SmallPay, tci % 200), <<>>)
\* ethertype demultiplexing, with and without a tag
NextETH == \E et \in {<<8, 0>>, <<134, 221>>, <<8, 6>>, <<136, 204>>, <<8, 1>>, <<0, 46>>, <<129, 1>>}, vid \in {0, 5, 4095}, tag \in {3, 77} :
              LET pay == CASE et = <<8, 0>> -> Ip4El("p", 4, 5, 1, 1, 2, 0, 17, tag, 5)
                           [] et = <<134, 221>> -> Ip6El("p", 6, 17, 66051, <<>>, 58, tag, 6, 0, 0, FALSE)
                           [] et = <<8, 6>> -> ArpEl("p", tag, 1 + (tag % 2))
                           [] OTHER -> BufEl("p", V(tag, 30)) IN
              /\ c' = <<et, vid, tag>>
              /\ Emit("ETH", EthEl("e", vid % 8, 0, vid, et, pay, tag), <<pay>>)
\* IPv4 packed groups: version/IHL (with options filling the header), DSCP/ECN, flags/fragment offset; protocol demultiplexing
NextIP4 == \/ \E ver \in 0..15, ihl \in 5..15 :
                /\ c' = <<"vi", ver, ihl>>
                /\ Emit("IP4", Ip4El("i", ver, ihl, 10, 1, 2, 100, 17, ver + ihl, 3), <<>>)
           \/ \E d \in 0..63, e \in 0..3 :
                /\ c' = <<"de", d, e>>
                /\ Emit("IP4", Ip4El("i", 4, 5, d, e, 0, 0, 6, d + e, 3), <<>>)
           \/ \E w \in 0..65535 :
                /\ Sel(w)
                /\ c' = <<"ff", w>>
                /\ Emit("IP4", Ip4El("i", 4, 5 + (w % 3), 0, 0, w \div 8192, w % 8192, 1, w % 190, 2), <<>>)
           \/ \E proto \in {0, 1, 2, 6, 17, 41, 58, 255}, dl \in {0, 1, 9} :
                /\ c' = <<"pr", proto, dl>>
                /\ Emit("IP4", Ip4El("i", 4, 5, 0, 0, 0, 0, proto, proto + dl, dl), <<>>)
Chains == {<<>>, <<"hbh">>, <<"rt">>, <<"fr">>, <<"hbh", "rt">>, <<"rt", "hbh">>, <<"hbh", "fr">>, <<"fr", "hbh">>, <<"rt", "fr">>, <<"fr", "rt">>,
           <<"hbh", "rt", "fr">>, <<"hbh", "fr", "rt">>, <<"rt", "hbh", "fr">>, <<"rt", "fr", "hbh">>, <<"fr", "hbh", "rt">>, <<"fr", "rt", "hbh">>}
NextIP6 == \/ \E ver \in 0..15, tc \in {0, 1, 15, 16, 128, 240, 255} :
                /\ c' = <<"vt", ver, tc>>
                /\ Emit("IP6", Ip6El("i", ver, tc, 1048575 - ver, <<>>, 17, ver + tc, 4, 0, 0, FALSE), <<>>)
           \/ \E tc \in 0..255 :
                /\ c' = <<"tc", tc>>
                /\ Emit("IP6", Ip6El("i", 6, tc, 0, <<>>, 59, tc, 2, 0, 0, FALSE), <<>>)
           \/ \E fl \in 0..1048575 :
                /\ Sel(fl) /\ (fl % 97 = 0 \/ fl < 300 \/ fl > 1048000 \/ Stride = 1)
                /\ c' = <<"fl", fl>>
                /\ Emit("IP6", Ip6El("i", 6, 170, fl, <<>>, 58, fl % 150, 1, 0, 0, FALSE), <<>>)
           \/ \E chain \in Chains, proto \in {58, 17, 59, 6}, nopt \in 0..3 :
                /\ c' = <<"ch", chain, proto, nopt>>
                /\ Emit("IP6", Ip6El("i", 6, 9, 74565, chain, proto, Len(chain) * 7 + nopt, 5, nopt, 1234, nopt % 2 = 1),
                        Ip6Parts("i", chain, proto, Len(chain) * 7 + nopt, 5, nopt, 1234, nopt % 2 = 1))
NextFRAG == \E w \in 0..16383 :
              /\ Sel(w)
              /\ c' = <<w>>
              /\ LET f == FragEl("f", 17, w \div 2, w % 2 = 1, w % 120) IN Emit("FRAG", f, <<>>)
NextTCP == \/ \E off \in 0..15, flags \in 0..63 :
                /\ c' = <<off, flags>>
                /\ Emit("TCP", TcpEl("t", off + flags, off, flags, off % 4), <<>>)
           \/ \E off \in 0..15, dl \in {4, 20, 44, 60} :     \* a payload long enough to hold the options the data offset announces
                /\ c' = <<"opts", off, dl>>
                /\ Emit("TCP", TcpEl("t", off + dl, off, 16 + (off % 8), dl), <<>>)
NextL4 == \/ \E dl \in {0, 1, 7, 64, 1400}, tag \in {1, 2} : c' = <<"icmp", dl, tag>> /\ Emit("L4", IcmpEl("x", tag, dl), <<>>)
          \/ \E dl \in {0, 1, 7, 64, 1400}, tag \in {1, 2} : c' = <<"udp", dl, tag>> /\ Emit("L4", UdpEl("x", tag, dl), <<>>)
          \/ \E oper \in {1, 2}, tag \in {1, 2, 3} : c' = <<"arp", oper, tag>> /\ Emit("L4", ArpEl("x", tag, oper), <<>>)
NextIGMP == \/ \E kind \in 1..4, tag \in {1, 9} : c' = <<"v12", kind, tag>> /\ Emit("IGMP", Igmp12El("g", kind, tag), <<>>)
            \/ \E tag \in {1, 9} : c' = <<"v2q", tag>> /\ Emit("IGMP", Igmp2QueryEl("g", tag), <<>>)
            \/ \E s \in BOOLEAN, qrv \in 0..7, nsrc \in {0, 1, 2, 5} :
                 c' = <<"v3q", s, qrv, nsrc>> /\ Emit("IGMP", Igmp3QueryEl("g", s, qrv, nsrc, qrv + nsrc), <<>>)
            \/ \E nrec \in {0, 1, 2, 5}, nsrc \in {0, 1, 2, 5} :
                 /\ c' = <<"v3r", nrec, nsrc>>
                 /\ LET recs == [i \in 1..nrec |-> GroupRecEl("r" \o ToString(i), 1 + (i % 6), (nsrc + i) % 6, 10 * i)] IN
                    Emit("IGMP", Igmp3ReportEl("g", recs, nrec + nsrc), recs)
            \/ \E naux \in {1, 2}, pos \in 1..3 :        \* auxiliary data in the record at position pos of three
                 /\ c' = <<"v3aux", naux, pos>>
                 /\ LET recs == [i \in 1..3 |-> IF i = pos THEN GroupRecAuxEl("r" \o ToString(i), 2, i - 1, naux, 10 * i)
                                                 ELSE GroupRecEl("r" \o ToString(i), 1 + i, i % 2, 10 * i)] IN
                    Emit("IGMP", Igmp3ReportEl("g", recs, naux + pos), recs)
\* extension headers of every size class: HEL up to 255 (2048 bytes), filled with options of 8 bytes and one of 6
HbhBig(n, next, hel, tag) ==
  LET opts == [i \in 1..hel |-> OptEl(Nm(n, i), 30 + (i % 200), 6, tag + i)] \o <<OptEl(Nm(n, 0), 1, 4, tag)>>
      t == [T |-> "HopByHopHeader", NextHeader |-> <<next>>, HEL |-> <<hel>>, Options |-> TreesOf(opts)] IN
  El(n, t, OpsOf(opts) \o <<New(n, "NewHopByHopHeader", <<>>), Set(n, "NextHeader", <<next>>), Set(n, "HEL", <<hel>>), Set(n, "Options", RefsOf(opts))>>)
Ip6With(n, hb, rt, first, proto, tag, dl) ==
  LET pay == L4(Nm(n, 1), proto, tag + 30, dl)
      t0 == [T |-> "IPv6", Version |-> <<6>>, TrafficClass |-> <<3>>, FlowLabel |-> <<0, 1, 2, 3>>, Length |-> V(tag, 2),
             NextHeader |-> <<first>>, HopLimit |-> V(tag + 1, 1), NWSrc |-> V(tag + 2, 16), NWDst |-> V(tag + 3, 16),
             HbhHeader |-> (IF hb = <<>> THEN NilT ELSE hb[1].tree), RoutingHeader |-> (IF rt = <<>> THEN NilT ELSE rt[1].tree),
             FragmentHeader |-> NilT, Data |-> pay.tree] IN
  El(n, t0, pay.ops \o OpsOf(hb) \o OpsOf(rt) \o <<NewT(n, "IPv6")>>
       \o SetAll(n, t0, <<"Version", "TrafficClass", "FlowLabel", "Length", "NextHeader", "HopLimit", "NWSrc", "NWDst">>)
       \o (IF hb = <<>> THEN <<>> ELSE <<Set(n, "HbhHeader", Ref(hb[1].n))>>) \o (IF rt = <<>> THEN <<>> ELSE <<Set(n, "RoutingHeader", Ref(rt[1].n))>>)
       \o <<Set(n, "Data", Ref(pay.n))>>)
Hels == {0, 1, 2, 7, 30, 31, 32, 33, 63, 64, 127, 128, 254, 255}
NextEXT == \E hel \in Hels, tag \in {3, 80} :
             \/ /\ c' = <<"hbh", hel, tag>> /\ Emit("EXT", HbhBig("h", 17, hel, tag), <<>>)
             \/ /\ c' = <<"rt", hel, tag>> /\ Emit("EXT", RtEl("r", 58, hel, tag), <<>>)
             \/ /\ c' = <<"ip6hbh", hel, tag>> /\ LET hb == HbhBig("h", 17, hel, tag) IN Emit("EXT", Ip6With("i", <<hb>>, <<>>, 0, 17, tag, 5), <<hb>>)
             \/ /\ c' = <<"ip6rt", hel, tag>> /\ LET rt == RtEl("r", 58, hel, tag) IN Emit("EXT", Ip6With("i", <<>>, <<rt>>, 43, 58, tag, 5), <<rt>>)
             \/ /\ c' = <<"ip6both", hel, tag>>
                /\ LET hb == HbhBig("h", 43, hel, tag)  rt == RtEl("r", 6, 255 - hel, tag) IN Emit("EXT", Ip6With("i", <<hb>>, <<rt>>, 0, 6, tag, 5), <<hb, rt>>)
\* hop-by-hop headers as applications build them: a PadN given by its length only in front of other options; a header longer than
\* its options need (the rest is implicit Pad1 zero bytes).  Encodable (C06, C13); not round-trip values (the decoder materialises the padding)
HbhLooseOpts(n, variant, tag) == IF variant = "nildata" THEN <<OptNilEl(Nm(n, 1), 1, 4), OptEl(Nm(n, 2), 5, 2, tag), OptNilEl(Nm(n, 3), 1, 2)>>
                                 ELSE <<OptEl(Nm(n, 1), 5, 2, tag)>>
HbhLooseEl(n, next, variant, tag) ==
  LET opts == HbhLooseOpts(n, variant, tag)
      hel == IF variant = "nildata" THEN 1 ELSE 2
      t == [T |-> "HopByHopHeader", NextHeader |-> <<next>>, HEL |-> <<hel>>, Options |-> TreesOf(opts)] IN
  El(n, t, OpsOf(opts) \o <<New(n, "NewHopByHopHeader", <<>>), Set(n, "NextHeader", <<next>>), Set(n, "HEL", <<hel>>), Set(n, "Options", RefsOf(opts))>>)
NextHX == \E variant \in {"nildata", "slack"}, inip \in BOOLEAN, tag \in {3, 80} :
            /\ c' = <<"hx", variant, inip, tag>>
            /\ LET hb == HbhLooseEl("h", 17, variant, tag) IN
               IF inip THEN Emit("HX", Ip6With("i", <<hb>>, <<>>, 0, 17, tag, 5), <<hb>>) ELSE Emit("HX", hb, HbhLooseOpts("h", variant, tag))       \* the options' own encodings must appear in the header whole and in order
DhcpTreeN(tag, hlen, opts, sn, fl) ==
  [T |-> "DHCP", Operation |-> <<1 + (tag % 2)>>, HardwareType |-> <<1>>, HardwareLen |-> <<hlen>>, HardwareOpts |-> <<0>>, Xid |-> V(tag, 4), Secs |-> V(tag + 1, 2),
   Flags |-> <<128, 0>>, ClientIP |-> V(tag + 2, 4), YourIP |-> V(tag + 3, 4), ServerIP |-> V(tag + 4, 4), GatewayIP |-> V(tag + 5, 4),
   ClientHWAddr |-> V(tag + 6, hlen), ServerName |-> V(tag + 7, sn), File |-> V(tag + 8, fl), Options |-> opts]
DhcpTree(tag, hlen, opts) == DhcpTreeN(tag, hlen, opts, 64, 128)
DOpt(tag, data) == [T |-> "DHCPOption", Tag |-> <<tag>>, Data |-> data]
\* DHCP and LLDP TLVs (Read / Write style codecs), built through the API
DhcpEl(n, tag, hlen, opts) ==
  LET t == DhcpTree(tag, hlen, opts)
      os == [i \in DOMAIN opts |-> El(Nm(n, i), opts[i], <<New(Nm(n, i), "DHCPNewOption", <<opts[i].Tag, opts[i].Data>>)>>)] IN
  El(n, t, OpsOf(os) \o <<New(n, "NewDHCP", <<t.Xid, t.Operation, <<1>>>>)>>
       \o SetAll(n, t, <<"HardwareLen", "HardwareOpts", "Secs", "Flags", "ClientIP", "YourIP", "ServerIP", "GatewayIP", "ClientHWAddr", "ServerName", "File">>)
       \o <<Set(n, "Options", RefsOf(os))>>)
\* DHCP as applications build it: server name / boot file shorter than their fixed fields (RFC 2131: 64 / 128 octets, zero-padded),
\* addresses in the 16-byte representation net.ParseIP returns, and the helper constructors (which leave both names unset)
V4in16(ip) == <<0, 0, 0, 0, 0, 0, 0, 0, 0, 0, 255, 255>> \o ip
DhcpShortEl(n, tag, hlen, opts, sn, fl, ip16) ==
  LET t == DhcpTreeN(tag, hlen, opts, sn, fl)
      os == [i \in DOMAIN opts |-> El(Nm(n, i), opts[i], <<New(Nm(n, i), "DHCPNewOption", <<opts[i].Tag, opts[i].Data>>)>>)]
      ipf == <<"ClientIP", "YourIP", "ServerIP", "GatewayIP">> IN
  El(n, t, OpsOf(os) \o <<New(n, "NewDHCP", <<t.Xid, t.Operation, <<1>>>>)>>
       \o SetAll(n, t, <<"HardwareLen", "HardwareOpts", "Secs", "Flags", "ClientHWAddr">>)
       \o [i \in 1..4 |-> Set(n, ipf[i], IF ip16 THEN V4in16(t[ipf[i]]) ELSE t[ipf[i]])]
       \o (IF sn > 0 THEN <<Set(n, "ServerName", t.ServerName)>> ELSE <<>>) \o (IF fl > 0 THEN <<Set(n, "File", t.File)>> ELSE <<>>)
       \o <<Set(n, "Options", RefsOf(os))>>)
DhcpCtors == <<"NewDHCPDiscover", "NewDHCPOffer", "NewDHCPRequest", "NewDHCPAck", "NewDHCPNak">>
DhcpMsgType == <<1, 2, 3, 5, 6>>
DhcpCtorEl(n, k, tag, hlen) ==
  LET hw == V(tag + 6, hlen)  mt == DhcpMsgType[k]
      t == [T |-> "DHCP", Operation |-> <<mt>>, HardwareType |-> <<1>>, HardwareLen |-> <<hlen>>, HardwareOpts |-> <<0>>, Xid |-> V(tag, 4), Secs |-> <<0, 0>>,
            Flags |-> <<0, 0>>, ClientIP |-> <<0, 0, 0, 0>>, YourIP |-> <<0, 0, 0, 0>>, ServerIP |-> <<0, 0, 0, 0>>, GatewayIP |-> <<0, 0, 0, 0>>,
            ClientHWAddr |-> hw, ServerName |-> <<>>, File |-> <<>>,
            Options |-> <<DOpt(53, <<mt>>)>> \o (IF k = 1 THEN <<DOpt(61, hw)>> ELSE <<>>)] IN
  El(n, t, <<New(n, DhcpCtors[k], <<t.Xid, hw>>)>>)
NextDC == \/ \E k \in 1..5, hlen \in {6, 16}, tag \in {5, 90} :
               /\ c' = <<"ctor", k, hlen, tag>>
               /\ Emit("DC", DhcpCtorEl("d", k, tag, hlen), <<>>)
          \/ \E sn \in {0, 5, 63, 64}, fl \in {0, 9, 128}, ip16 \in BOOLEAN, tag \in {5} :
               /\ c' = <<"short", sn, fl, ip16, tag>>
               /\ Emit("DC", DhcpShortEl("d", tag, 6, <<DOpt(53, <<1>>), DOpt(12, V(tag, 9))>>, sn, fl, ip16), <<>>)
LldpIdEl(n, kind, type, subtype, data) ==
  LET t == [T |-> kind, Type |-> <<type>>, Length |-> BE16(1 + Len(data)), Subtype |-> <<subtype>>, Data |-> data] IN
  El(n, t, <<NewT(n, kind)>> \o SetAll(n, t, <<"Type", "Length", "Subtype", "Data">>))
LldpTtlEl(n, secs) ==
  LET t == [T |-> "TTLTLV", Type |-> <<3>>, Length |-> <<0, 2>>, Seconds |-> secs] IN
  El(n, t, <<NewT(n, "TTLTLV")>> \o SetAll(n, t, <<"Type", "Length", "Seconds">>))
NextDL == \/ \E hlen \in {0, 1, 6, 16}, k \in 0..5, tag \in {5, 90} :
               LET opts == CASE k = 0 -> <<>>
                             [] k = 1 -> <<DOpt(53, <<1>>)>>
                             [] k = 2 -> <<DOpt(53, <<5>>), DOpt(51, V(tag, 4)), DOpt(61, V(tag + 1, 7))>>
                             [] k = 3 -> <<DOpt(0, <<>>), DOpt(0, <<>>), DOpt(12, V(tag, 40))>>       \* pad options (the end option is written by the encoder)
                             [] k = 4 -> <<DOpt(60, <<>>), DOpt(55, V(tag, 253))>>
                             [] k = 5 -> <<DOpt(53, <<2>>), DOpt(255, <<>>), DOpt(0, <<>>), DOpt(0, <<>>), DOpt(0, <<>>)>> IN   \* an explicit end option followed by pad options (BOOTP minimum size)
               /\ c' = <<"dhcp", hlen, k, tag>>
               /\ Emit("DL", DhcpEl("d", tag, hlen, opts), <<>>)
          \/ \E dl \in {0, 1, 6, 255, 510}, kind \in {"ChassisTLV", "PortTLV"}, tag \in {5, 90} :
               /\ c' = <<kind, dl, tag>>
               /\ Emit("DL", LldpIdEl("t", kind, IF kind = "ChassisTLV" THEN 1 ELSE 2, 1 + (tag % 7), V(tag, dl)), <<>>)
          \/ \E secs \in {<<0, 0>>, <<0, 120>>, <<255, 255>>} :
               /\ c' = <<"ttl", secs>>
               /\ Emit("DL", LldpTtlEl("t", secs), <<>>)
\* base frames for the totality check (C08): for every decoder entry point a few well-formed inputs written by EncPkt
BaseTrees ==
  { EthEl("e", 0, 0, 0, <<8, 0>>, Ip4El("p", 4, 5, 0, 0, 0, 0, 17, 1, 10), 1).tree,
    EthEl("e", 3, 0, 77, <<8, 0>>, Ip4El("p", 4, 7, 1, 1, 2, 9, 1, 2, 6), 2).tree,
    EthEl("e", 0, 0, 0, <<8, 6>>, ArpEl("p", 3, 2), 3).tree,
    EthEl("e", 1, 1, 4095, <<134, 221>>, Ip6El("p", 6, 9, 4660, <<"hbh", "rt", "fr">>, 17, 4, 7, 2, 5, TRUE), 4).tree,
    EthEl("e", 0, 0, 0, <<134, 221>>, Ip6El("p", 6, 0, 1, <<"rt", "hbh">>, 58, 5, 4, 3, 0, FALSE), 5).tree,
    EthEl("e", 0, 0, 0, <<136, 204>>, BufEl("p", V(6, 20)), 6).tree,
    EthEl("e", 2, 0, 100, <<129, 0>>, BufEl("p", <<0, 200, 8, 0>> \o V(7, 24)), 7).tree,        \* stacked tags (Q-in-Q): 0x8100 again after the first tag
    EthEl("e", 1, 0, 5, <<129, 0>>, BufEl("p", <<0, 6, 129, 0, 0, 7, 8, 6>> \o V(8, 28)), 8).tree,  \* three tags
    [T |-> "VLAN", TPID |-> <<129, 0>>, PCP |-> <<5>>, DEI |-> <<1>>, VID |-> <<1, 1>>],
    ArpEl("p", 7, 1).tree,
    Ip4El("p", 4, 5, 0, 0, 0, 0, 17, 8, 12).tree, Ip4El("p", 4, 15, 63, 3, 7, 8191, 1, 9, 4).tree, Ip4El("p", 4, 6, 0, 0, 0, 0, 6, 10, 20).tree,
    Ip6El("p", 6, 255, 1048575, <<>>, 58, 11, 8, 0, 0, FALSE).tree, Ip6El("p", 6, 1, 2, <<"hbh">>, 17, 12, 3, 1, 0, FALSE).tree,
    Ip6El("p", 6, 1, 2, <<"fr", "rt", "hbh">>, 6, 13, 9, 3, 100, TRUE).tree,
    HbhBig("h", 17, 40, 44).tree, Ip6With("i", <<HbhBig("h", 17, 40, 45)>>, <<>>, 0, 17, 46, 5).tree,
    HbhEl("h", 58, 0, 14).tree, HbhEl("h", 17, 3, 15).tree, RtEl("r", 58, 0, 16).tree, RtEl("r", 44, 2, 17).tree, FragEl("f", 17, 100, TRUE, 18).tree,
    OptEl("o", 5, 0, 19).tree, OptEl("o", 194, 4, 20).tree,
    IcmpEl("x", 21, 0).tree, IcmpEl("x", 22, 12).tree, UdpEl("x", 23, 0).tree, UdpEl("x", 24, 20).tree, TcpEl("x", 25, 5, 18, 0).tree, TcpEl("x", 26, 8, 63, 16).tree,
    Igmp12El("g", 1, 27).tree, Igmp2QueryEl("g", 28).tree, Igmp3QueryEl("g", TRUE, 7, 0, 29).tree, Igmp3QueryEl("g", FALSE, 2, 3, 30).tree,
    GroupRecEl("r", 4, 0, 31).tree, GroupRecEl("r", 1, 2, 32).tree,
    Igmp3ReportEl("g", <<>>, 33).tree, Igmp3ReportEl("g", <<GroupRecEl("r1", 1, 1, 34), GroupRecEl("r2", 6, 3, 35)>>, 36).tree,
    DhcpTree(37, 6, <<DOpt(53, <<1>>), DOpt(61, V(38, 6))>>), DhcpTree(39, 16, <<DOpt(0, <<>>), DOpt(53, <<5>>), DOpt(51, V(40, 4)), DOpt(255, <<>>)>>),
    DhcpTree(41, 0, <<>>),
    [T |-> "ChassisTLV", Type |-> <<1>>, Subtype |-> <<4>>, Data |-> V(42, 6)], [T |-> "PortTLV", Type |-> <<2>>, Subtype |-> <<7>>, Data |-> V(43, 3)],
    [T |-> "TTLTLV", Type |-> <<3>>, Seconds |-> <<0, 120>>] }
\* DHCP option lists are also decoded on their own
OptLists == { <<>>, <<DOpt(53, <<1>>)>>, <<DOpt(0, <<>>), DOpt(1, V(1, 4)), DOpt(3, V(2, 8)), DOpt(255, <<>>)>>, <<DOpt(12, V(3, 40)), DOpt(60, <<>>)>> }
LldpFrame == EncPkt([T |-> "ChassisTLV", Type |-> <<1>>, Subtype |-> <<4>>, Data |-> V(50, 6)]) \o EncPkt([T |-> "PortTLV", Type |-> <<2>>, Subtype |-> <<5>>, Data |-> V(51, 4)])
             \o EncPkt([T |-> "TTLTLV", Type |-> <<3>>, Seconds |-> <<0, 120>>]) \o <<0, 0>>
NextBASE == \/ /\ c' = <<"lldp">>
               /\ PrintT(ToJson([entry |-> "LLDP", kind |-> "LLDP", frame |-> LldpFrame]))
            \/ \E t \in BaseTrees :
                 /\ c' = <<t>>
                 /\ PrintT(ToJson([entry |-> t.T, kind |-> t.T, frame |-> EncPkt(t)]))
            \/ \E ol \in OptLists :
                 /\ c' = <<"opts", ol>>
                 /\ PrintT(ToJson([entry |-> "DHCPOptions", kind |-> "DHCPOptions", frame |-> Flat([i \in DOMAIN ol |-> EncDhcpOpt(ol[i])]) \o <<255>>]))
Init == c = <<>>
Next == c = <<>> /\ CASE Family = "VLAN" -> NextVLAN [] Family = "ETH" -> NextETH [] Family = "IP4" -> NextIP4 [] Family = "IP6" -> NextIP6
                      [] Family = "FRAG" -> NextFRAG [] Family = "TCP" -> NextTCP [] Family = "L4" -> NextL4 [] Family = "IGMP" -> NextIGMP [] Family = "BASE" -> NextBASE [] Family = "EXT" -> NextEXT [] Family = "DL" -> NextDL [] Family = "DC" -> NextDC [] Family = "HX" -> NextHX
Spec == Init /\ [][Next]_c
=============================================================================
