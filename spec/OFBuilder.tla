------------------------------ MODULE OFBuilder ------------------------------
(* The controller-side construction API as a catalogue of elements.  Every   *)
(* element is a record [n, tree, ops]: the name of the Go object, the        *)
(* abstract tree the calls denote (OFWire.tla), and the sequence of API      *)
(* calls (constructor / field assignment / adder method) that builds it,     *)
(* children first.  The specification states which tree every call          *)
(* sequence denotes; the harness only executes the calls.                    *)
EXTENDS OFWire
New(as, ctor, args) == [op |-> "new", as |-> as, ctor |-> ctor, args |-> args]
NewT(as, type) == [op |-> "new", as |-> as, type |-> type]
Set(obj, f, val) == [op |-> "set", obj |-> obj, f |-> f, val |-> val]
Call(obj, m, args) == [op |-> "call", obj |-> obj, m |-> m, args |-> args]
CallP(obj, path, m, args) == [op |-> "call", obj |-> obj, path |-> path, m |-> m, args |-> args]
Ref(n) == [ref |-> n]
ObsOp(n) == [op |-> "obs", obj |-> n]     \* size and encode n in the middle of its construction (results not judged)
Nil == "nil"
El(n, tree, ops) == [n |-> n, tree |-> tree, ops |-> ops]
Nm(n, i) == n \o "_" \o ToString(i)
\* position-tagged value: w bytes that depend on the tag and the byte index
V(tag, w) == IF tag \in 1000..1999 THEN [j \in 1..w |-> 0]                  \* boundary: all zero
             ELSE IF tag \in 2000..2999 THEN [j \in 1..w |-> 255]           \* boundary: all ones
             ELSE IF tag \in 3000..3999 THEN [j \in 1..w |-> IF j = 1 THEN 128 ELSE 0]   \* top bit
             ELSE IF tag \in 4000..4999 THEN [j \in 1..w |-> IF j = w THEN 1 ELSE 0]     \* low bit
             ELSE [j \in 1..w |-> (tag * 37 + j * 11 + 5) % 256]
Ones(w) == [j \in 1..w |-> 255]
OpsOf(els) == Flat([i \in DOMAIN els |-> els[i].ops])
TreesOf(els) == [i \in DOMAIN els |-> els[i].tree]
RefsOf(els) == [i \in DOMAIN els |-> Ref(els[i].n)]
Or16(b, hi) == << (IF (b[1] \div hi) % 2 = 1 THEN b[1] ELSE b[1] + hi), b[2] >>

\* ---------------------------------------------------------------- match fields
\* <<constructor, registry name, width, mask style>>; mask style: 0 no mask argument, 1 pointer (nil = none), 2 slice (nil = none)
MFTable == <<
  <<"NewInPortField", "OXM_OF_IN_PORT", 4, 0>>,      <<"NewEthDstField", "OXM_OF_ETH_DST", 6, 1>>,
  <<"NewEthSrcField", "OXM_OF_ETH_SRC", 6, 1>>,      <<"NewEthTypeField", "OXM_OF_ETH_TYPE", 2, 0>>,
  <<"NewVlanIdField", "OXM_OF_VLAN_VID", 2, 1>>,     <<"NewMplsLabelField", "OXM_OF_MPLS_LABEL", 4, 0>>,
  <<"NewMplsBosField", "OXM_OF_MPLS_BOS", 1, 0>>,    <<"NewIpv4SrcField", "OXM_OF_IPV4_SRC", 4, 1>>,
  <<"NewIpv4DstField", "OXM_OF_IPV4_DST", 4, 1>>,    <<"NewIpv6SrcField", "OXM_OF_IPV6_SRC", 16, 1>>,
  <<"NewIpv6DstField", "OXM_OF_IPV6_DST", 16, 1>>,   <<"NewIPV6FlowLabelField", "OXM_OF_IPV6_FLABEL", 4, 1>>,
  <<"NewIpProtoField", "OXM_OF_IP_PROTO", 1, 0>>,    <<"NewIpDscpField", "OXM_OF_IP_DSCP", 1, 0>>,
  <<"NewTunnelIdField", "OXM_OF_TUNNEL_ID", 8, 0>>,  <<"NewMetadataField", "OXM_OF_METADATA", 8, 1>>,
  <<"NewTcpSrcField", "OXM_OF_TCP_SRC", 2, 0>>,      <<"NewTcpDstField", "OXM_OF_TCP_DST", 2, 0>>,
  <<"NewUdpSrcField", "OXM_OF_UDP_SRC", 2, 0>>,      <<"NewUdpDstField", "OXM_OF_UDP_DST", 2, 0>>,
  <<"NewSctpSrcField", "OXM_OF_SCTP_SRC", 2, 0>>,    <<"NewSctpDstField", "OXM_OF_SCTP_DST", 2, 0>>,
  <<"NewTcpFlagsField", "OXM_OF_TCP_FLAGS", 2, 1>>,  <<"NewArpOperField", "OXM_OF_ARP_OP", 2, 0>>,
  <<"NewArpThaField", "OXM_OF_ARP_THA", 6, 0>>,      <<"NewArpShaField", "OXM_OF_ARP_SHA", 6, 0>>,
  <<"NewArpTpaField", "OXM_OF_ARP_TPA", 4, 0>>,      <<"NewArpSpaField", "OXM_OF_ARP_SPA", 4, 0>>,
  <<"NewActsetOutputField", "OXM_OF_ACTSET_OUTPUT", 4, 0>>,
  <<"NewIcmpCodeField", "OXM_OF_ICMPV4_CODE", 1, 0>>, <<"NewIcmpTypeField", "OXM_OF_ICMPV4_TYPE", 1, 0>>,
  <<"NewTunnelIpv4SrcField", "NXM_NX_TUN_IPV4_SRC", 4, 1>>, <<"NewTunnelIpv4DstField", "NXM_NX_TUN_IPV4_DST", 4, 1>>,
  <<"NewCTZoneMatchField", "NXM_NX_CT_ZONE", 2, 0>>,  <<"NewCTMarkMatchField", "NXM_NX_CT_MARK", 4, 1>>,
  <<"NewCTLabelMatchField", "NXM_NX_CT_LABEL", 16, 1>>, <<"NewConjIDMatchField", "NXM_NX_CONJ_ID", 4, 0>>,
  <<"NewNxARPShaMatchField", "NXM_NX_ARP_SHA", 6, 2>>, <<"NewNxARPThaMatchField", "NXM_NX_ARP_THA", 6, 2>>,
  <<"NewNxARPSpaMatchField", "NXM_OF_ARP_SPA", 4, 2>>, <<"NewNxARPTpaMatchField", "NXM_OF_ARP_TPA", 4, 2>> >>
NMF == Len(MFTable)
\* match-field kinds the library can decode (the others have an encoder only)
DecodableMF == {k \in 1..Len(MFTable) : MFTable[k][1] \notin {"NewActsetOutputField", "NewNxARPSpaMatchField", "NewNxARPTpaMatchField"}}
IsDecodable(k) == k \in DecodableMF
DecSeq == SelectSeq([i \in 1..Len(MFTable) |-> i], IsDecodable)
DecMF(j) == DecSeq[1 + (j % Len(DecSeq))]
MFTree(name, val, masked, mask) ==
  IF masked THEN [T |-> "MatchField", Class |-> BE16(ClassOf(name)), Field |-> <<FieldOf(name)>>, HasMask |-> TRUE, Value |-> val, Mask |-> mask]
  ELSE [T |-> "MatchField", Class |-> BE16(ClassOf(name)), Field |-> <<FieldOf(name)>>, HasMask |-> FALSE, Value |-> val]
\* element k of the table, value v, optionally masked with m (only if the constructor takes a mask)
MFWith(n, k, v, masked, m) ==
  LET row == MFTable[k]  ms == row[4]  mk == masked /\ ms # 0
      val == IF row[1] = "NewVlanIdField" THEN Or16(v, 16) ELSE v            \* OFPVID_PRESENT
      args == IF ms = 0 THEN <<v>> ELSE IF mk THEN <<v, m>> ELSE <<v, Nil>> IN
  El(n, MFTree(row[2], val, mk, m), <<New(n, row[1], args)>>)
MF(n, k, tag, masked) == MFWith(n, k, V(tag, MFTable[k][3]), masked, V(tag + 101, MFTable[k][3]))
\* register fields and header-only fields (from the registry by name)
RegField(n, idx, tag, f, l) ==
  El(n, [T |-> "MatchField", Class |-> <<0, 1>>, Field |-> <<idx>>, HasMask |-> TRUE, Value |-> V(tag, 4), Mask |-> BitsToBytes(f..l, 4)],
     <<New(Nm(n, 0), "NewNXRange", <<f, l>>), New(n, "NewRegMatchField", <<idx, V(tag, 4), Ref(Nm(n, 0))>>)>>)
\* a field built with the generic builder NewMatchField(name, data, window...) (MatchBuilder.tla states its meaning): the data bits
\* dbits (bit positions, the highest one present so that the one-argument form implies the same width) placed at bit `start`
SetMax(S) == CHOOSE x \in S : \A y \in S : y <= x
GenField(n, name, dbits, start, form) ==
  LET W == WidthOf(name)  nb == SetMax(dbits) + 1
      vbits == {start + i : i \in dbits}
      data == BitsToBytes(dbits, 8)  pre == BitsToBytes(vbits, 8)
      args == CASE form = "plain" -> <<name, data>> [] form = "start" -> <<name, data, start>> [] form = "range" -> <<name, data, start, nb>>
                [] form = "shift" -> <<name, data, start, nb, 1>> [] form = "noshift" -> <<name, pre, start, nb, 0>> IN
  El(n, MFTree(name, BitsToBytes(IF form = "plain" THEN dbits ELSE vbits, W), form # "plain", BitsToBytes(start..(start + nb - 1), W)),
     <<New(n, "NewMatchFieldU64", args)>>)
HdrField(n, name, hm) ==
  El(n, [T |-> "FieldHeader", Class |-> BE16(ClassOf(name)), Field |-> <<FieldOf(name)>>, HasMask |-> hm,
         Length |-> <<WidthOf(name) * (1 + Bool01(hm))>>],
     <<New(n, "FindFieldHeaderByName", <<name, hm>>)>>)
Match(fields) == [T |-> "Match", Fields |-> TreesOf(fields)]

\* ---------------------------------------------------------------- actions
LeafActSeq == <<"output", "setqueue", "group", "decnwttl", "pushvlan", "pushmpls", "popvlan", "popmpls",
               "setfield", "setfieldm", "conj", "regload", "regmove", "resubmit", "resubtable", "resubct",
               "resubctnoport", "outputreg", "outputregmax", "ctclear", "decttl", "cntids0", "cntids1", "cntids2",
               "cntids4", "note0", "note3", "note6", "note14", "regload2", "regload2m", "controller",
               "learn0", "learn1", "learn2", "nat0", "nat4", "nat44", "nat6", "natp",
               "natall", "natpmax">>
LeafActKinds == {LeafActSeq[i] : i \in DOMAIN LeafActSeq}
LearnSpecEl(n, kind, nbits, tag) ==
  LET hdrCtor == CASE kind = "mv" -> "NewLearnHeaderMatchFromValue" [] kind = "mf" -> "NewLearnHeaderMatchFromField"
                   [] kind = "lv" -> "NewLearnHeaderLoadFromValue" [] kind = "lf" -> "NewLearnHeaderLoadFromField"
                   [] kind = "of" -> "NewLearnHeaderOutputFromField"
      src == IF kind \in {"mv", "lv"} THEN 1 ELSE 0
      dst == CASE kind \in {"mv", "mf"} -> 0 [] kind \in {"lv", "lf"} -> 1 [] kind = "of" -> 2
      sf == HdrField(Nm(n, 1), "NXM_NX_REG1", FALSE)   df == HdrField(Nm(n, 2), "NXM_OF_ETH_DST", FALSE)
      sval == V(tag, 2 * ((nbits + 15) \div 16))
      base == <<New(Nm(n, 0), hdrCtor, <<BE16(nbits)>>), NewT(n, "NXLearnSpec"), Set(n, "Header", Ref(Nm(n, 0)))>>
      srcOps == IF src = 1 THEN <<Set(n, "SrcValue", sval)>>
                ELSE sf.ops \o <<NewT(Nm(n, 3), "NXLearnSpecField"), Set(Nm(n, 3), "Field", Ref(sf.n)), Set(Nm(n, 3), "Ofs", V(tag + 1, 2)),
                                 Set(n, "SrcField", Ref(Nm(n, 3)))>>
      dstOps == IF dst = 2 THEN <<>>
                ELSE df.ops \o <<NewT(Nm(n, 4), "NXLearnSpecField"), Set(Nm(n, 4), "Field", Ref(df.n)), Set(Nm(n, 4), "Ofs", V(tag + 2, 2)),
                                 Set(n, "DstField", Ref(Nm(n, 4)))>>
      t0 == [T |-> "NXLearnSpec", Src |-> src, Dst |-> dst, NBits |-> nbits]
      t1 == IF src = 1 THEN t0 @@ [SrcValue |-> sval] ELSE t0 @@ [SrcField |-> [Field |-> sf.tree, Ofs |-> V(tag + 1, 2)]]
      t2 == IF dst = 2 THEN t1 ELSE t1 @@ [DstField |-> [Field |-> df.tree, Ofs |-> V(tag + 2, 2)]] IN
  El(n, t2, base \o srcOps \o dstOps)
LearnEl(n, specs, tag) ==
  LET t == [T |-> "NXActionLearn", IdleTimeout |-> V(tag, 2), HardTimeout |-> V(tag + 1, 2), Priority |-> V(tag + 2, 2),
            Cookie |-> V(tag + 3, 8), Flags |-> V(tag + 4, 2), TableID |-> V(tag + 5, 1), FinIdleTimeout |-> V(tag + 6, 2),
            FinHardTimeout |-> V(tag + 7, 2), LearnSpecs |-> TreesOf(specs)] IN
  El(n, t, OpsOf(specs) \o <<New(n, "NewNXActionLearn", <<>>), Set(n, "IdleTimeout", t.IdleTimeout), Set(n, "HardTimeout", t.HardTimeout),
       Set(n, "Priority", t.Priority), Set(n, "Cookie", t.Cookie), Set(n, "Flags", t.Flags), Set(n, "TableID", t.TableID),
       Set(n, "FinIdleTimeout", t.FinIdleTimeout), Set(n, "FinHardTimeout", t.FinHardTimeout), Set(n, "LearnSpecs", RefsOf(specs))>>)
NatEl(n, parts, tag) ==      \* parts \subseteq {"4min","4max","6min","6max","pmin","pmax"}; setters called in wire order
  LET t0 == [T |-> "NXActionCTNAT", Flags |-> <<0, 1>>]
      t1 == IF "4min" \in parts THEN t0 @@ [IPv4Min |-> V(tag, 4)] ELSE t0
      t2 == IF "4max" \in parts THEN t1 @@ [IPv4Max |-> V(tag + 1, 4)] ELSE t1
      t3 == IF "6min" \in parts THEN t2 @@ [IPv6Min |-> V(tag + 2, 16)] ELSE t2
      t4 == IF "6max" \in parts THEN t3 @@ [IPv6Max |-> V(tag + 3, 16)] ELSE t3
      t5 == IF "pmin" \in parts THEN t4 @@ [ProtoMin |-> V(tag + 4, 2)] ELSE t4
      t6 == IF "pmax" \in parts THEN t5 @@ [ProtoMax |-> V(tag + 5, 2)] ELSE t5
      o(p, m, v) == IF p \in parts THEN <<Call(n, m, <<v>>)>> ELSE <<>> IN
  El(n, t6, <<New(n, "NewNXActionCTNAT", <<>>), Call(n, "SetSNAT", <<>>)>> \o o("4min", "SetRangeIPv4Min", V(tag, 4))
       \o o("4max", "SetRangeIPv4Max", V(tag + 1, 4)) \o o("6min", "SetRangeIPv6Min", V(tag + 2, 16))
       \o o("6max", "SetRangeIPv6Max", V(tag + 3, 16)) \o o("pmin", "SetRangeProtoMin", V(tag + 4, 2))
       \o o("pmax", "SetRangeProtoMax", V(tag + 5, 2)))
\* every range setter called twice (a range that is set and later changed): the last value counts, the action does not grow
NatTwiceEl(n, parts, tag) ==
  LET e == NatEl(n, parts, tag)
      dbl(op) == IF op.op = "call" /\ op.m \in {"SetRangeIPv4Min", "SetRangeIPv4Max", "SetRangeIPv6Min", "SetRangeIPv6Max", "SetRangeProtoMin", "SetRangeProtoMax"}
                 THEN <<[op EXCEPT !.args = <<V(tag + 77, Len(op.args[1]))>>], op>> ELSE <<op>> IN
  El(n, e.tree, Flat([i \in DOMAIN e.ops |-> dbl(e.ops[i])]))
\* the NAT flag setters: SNAT/DNAT and hash/random are mutually exclusive (the second call of a pair is refused and changes nothing)
NatFlagBit(c) == CASE c = "SetSNAT" -> 1 [] c = "SetDNAT" -> 2 [] c = "SetPersistent" -> 4 [] c = "SetProtoHash" -> 8 [] c = "SetRandom" -> 16
NatFlagExcl(c) == CASE c = "SetSNAT" -> 2 [] c = "SetDNAT" -> 1 [] c = "SetProtoHash" -> 16 [] c = "SetRandom" -> 8 [] OTHER -> 0
HasBit(v, b) == (v \div b) % 2 = 1
RECURSIVE NatFlagsAfter(_, _)
NatFlagsAfter(calls, v) == IF calls = <<>> THEN v
                           ELSE LET c == Head(calls)  x == NatFlagExcl(c)
                                    v2 == IF x # 0 /\ HasBit(v, x) THEN v ELSE (IF HasBit(v, NatFlagBit(c)) THEN v ELSE v + NatFlagBit(c)) IN
                                NatFlagsAfter(Tail(calls), v2)
NatFlagsEl(n, calls, tag) ==
  El(n, [T |-> "NXActionCTNAT", Flags |-> <<0, NatFlagsAfter(calls, 0)>>, IPv4Min |-> V(tag, 4)],
     <<New(n, "NewNXActionCTNAT", <<>>)>> \o [i \in DOMAIN calls |-> Call(n, calls[i], <<>>)] \o <<Call(n, "SetRangeIPv4Min", <<V(tag, 4)>>)>>)
\* tunnel metadata (variable length) match field
TunMetaEl(n, idx, len, masked, tag) ==
  El(n, IF masked THEN [T |-> "MatchField", Class |-> <<0, 1>>, Field |-> <<40 + idx>>, HasMask |-> TRUE, Value |-> V(tag, len), Mask |-> V(tag + 1, len)]
                  ELSE [T |-> "MatchField", Class |-> <<0, 1>>, Field |-> <<40 + idx>>, HasMask |-> FALSE, Value |-> V(tag, len)],
     <<New(n, "NewTunMetadataField", IF masked THEN <<idx, V(tag, len), V(tag + 1, len)>> ELSE <<idx, V(tag, len), Nil>>)>>)
NoteEl(n, len, tag) == El(n, [T |-> "NXActionNote", Note |-> V(tag, len)], <<New(n, "NewNXActionNote", <<>>), Set(n, "Note", V(tag, len))>>)
\* a note whose own content ends in zero bytes (indistinguishable from padding only by its position, not by its value)
NoteZEl(n, len, z, tag) == LET v == V(tag, len - z) \o Zeros(z) IN El(n, [T |-> "NXActionNote", Note |-> v], <<New(n, "NewNXActionNote", <<>>), Set(n, "Note", v)>>)
CntIDs(n, k, tag) == LET ids == [i \in 1..k |-> V(tag + i, 2)] IN
  El(n, [T |-> "NXActionDecTTLCntIDs", IDs |-> ids], <<New(n, "NewNXActionDecTTLCntIDs", <<BE16(k)>> \o ids)>>)
LeafAct(n, kind, tag) ==
  CASE kind = "output" -> El(n, [T |-> "ActionOutput", Port |-> V(tag, 4), MaxLen |-> V(tag + 1, 2)],
                             <<New(n, "NewActionOutput", <<V(tag, 4)>>), Set(n, "MaxLen", V(tag + 1, 2))>>)
    [] kind = "setqueue" -> El(n, [T |-> "ActionSetqueue", QueueId |-> V(tag, 4)], <<New(n, "NewActionSetQueue", <<V(tag, 4)>>)>>)
    [] kind = "group"    -> El(n, [T |-> "ActionGroup", GroupId |-> V(tag, 4)], <<New(n, "NewActionGroup", <<V(tag, 4)>>)>>)
    [] kind = "decnwttl" -> El(n, [T |-> "ActionDecNwTtl"], <<New(n, "NewActionDecNwTtl", <<>>)>>)
    [] kind = "pushvlan" -> El(n, [T |-> "ActionPush", Type |-> <<0, 17>>, EtherType |-> V(tag, 2)], <<New(n, "NewActionPushVlan", <<V(tag, 2)>>)>>)
    [] kind = "pushmpls" -> El(n, [T |-> "ActionPush", Type |-> <<0, 19>>, EtherType |-> V(tag, 2)], <<New(n, "NewActionPushMpls", <<V(tag, 2)>>)>>)
    [] kind = "popvlan"  -> El(n, [T |-> "ActionPopVlan"], <<New(n, "NewActionPopVlan", <<>>)>>)
    [] kind = "popmpls"  -> El(n, [T |-> "ActionPopMpls", EtherType |-> V(tag, 2)], <<New(n, "NewActionPopMpls", <<V(tag, 2)>>)>>)
    [] kind = "setfield" -> LET f == MF(Nm(n, 1), DecMF(tag), tag, FALSE) IN
                            El(n, [T |-> "ActionSetField", Field |-> f.tree], f.ops \o <<New(n, "NewActionSetField", <<Ref(f.n)>>)>>)
    [] kind = "setfieldm" -> LET f == MF(Nm(n, 1), DecMF(tag * 3), tag, TRUE) IN
                            El(n, [T |-> "ActionSetField", Field |-> f.tree], f.ops \o <<New(n, "NewActionSetField", <<Ref(f.n)>>)>>)
    [] kind = "conj" -> El(n, [T |-> "NXActionConjunction", Clause |-> V(tag, 1), NClause |-> V(tag + 1, 1), ID |-> V(tag + 2, 4)],
                           <<New(n, "NewNXActionConjunction", <<V(tag, 1), V(tag + 1, 1), V(tag + 2, 4)>>)>>)
    [] kind = "regload" -> LET f == HdrField(Nm(n, 1), "NXM_NX_REG" \o ToString(tag % 16), FALSE) IN
                           El(n, [T |-> "NXActionRegLoad", OfsNbits |-> V(tag, 2), DstReg |-> f.tree, Value |-> V(tag + 1, 8)],
                              f.ops \o <<New(n, "NewNXActionRegLoad", <<V(tag, 2), Ref(f.n), V(tag + 1, 8)>>)>>)
    [] kind = "regmove" -> LET s == HdrField(Nm(n, 1), "NXM_NX_REG" \o ToString(tag % 16), FALSE)
                               d == HdrField(Nm(n, 2), "NXM_NX_TUN_ID", FALSE) IN
                           El(n, [T |-> "NXActionRegMove", Nbits |-> V(tag, 2), SrcOfs |-> V(tag + 1, 2), DstOfs |-> V(tag + 2, 2),
                                  SrcField |-> s.tree, DstField |-> d.tree],
                              s.ops \o d.ops \o <<New(n, "NewNXActionRegMove", <<V(tag, 2), V(tag + 1, 2), V(tag + 2, 2), Ref(s.n), Ref(d.n)>>)>>)
    [] kind = "resubmit" -> El(n, [T |-> "NXActionResubmit", InPort |-> V(tag, 2)], <<New(n, "NewNXActionResubmit", <<V(tag, 2)>>)>>)
    [] kind = "resubtable" -> El(n, [T |-> "NXActionResubmitTable", Subtype |-> <<0, 14>>, InPort |-> V(tag, 2), TableID |-> V(tag + 1, 1)],
                                 <<New(n, "NewNXActionResubmitTableAction", <<V(tag, 2), V(tag + 1, 1)>>)>>)
    [] kind = "resubct" -> El(n, [T |-> "NXActionResubmitTable", Subtype |-> <<0, 44>>, InPort |-> V(tag, 2), TableID |-> V(tag + 1, 1)],
                              <<New(n, "NewNXActionResubmitTableCT", <<V(tag, 2), V(tag + 1, 1)>>)>>)
    [] kind = "resubctnoport" -> El(n, [T |-> "NXActionResubmitTable", Subtype |-> <<0, 44>>, InPort |-> <<255, 248>>, TableID |-> V(tag + 1, 1)],
                                    <<New(n, "NewNXActionResubmitTableCTNoInPort", <<V(tag + 1, 1)>>)>>)   \* OFPP_IN_PORT as 16 bits
    [] kind = "outputreg" -> LET s == HdrField(Nm(n, 1), "NXM_NX_REG" \o ToString(tag % 16), FALSE) IN
                             El(n, [T |-> "NXActionOutputReg", OfsNbits |-> V(tag, 2), SrcField |-> s.tree, MaxLen |-> V(tag + 1, 2)],
                                s.ops \o <<New(n, "NewOutputFromFieldWithMaxLen", <<Ref(s.n), V(tag, 2), V(tag + 1, 2)>>)>>)
    [] kind = "outputregmax" -> LET s == HdrField(Nm(n, 1), "NXM_NX_REG" \o ToString(tag % 16), FALSE) IN
                             El(n, [T |-> "NXActionOutputReg", OfsNbits |-> V(tag, 2), SrcField |-> s.tree, MaxLen |-> <<255, 255>>],
                                s.ops \o <<New(n, "NewOutputFromField", <<Ref(s.n), V(tag, 2)>>)>>)
    [] kind = "ctclear" -> El(n, [T |-> "NXActionCTClear"], <<New(n, "NewNXActionCTClear", <<>>)>>)
    [] kind = "decttl"  -> El(n, [T |-> "NXActionDecTTL"], <<New(n, "NewNXActionDecTTL", <<>>)>>)
    [] kind = "cntids0" -> CntIDs(n, 0, tag) [] kind = "cntids1" -> CntIDs(n, 1, tag)
    [] kind = "cntids2" -> CntIDs(n, 2, tag) [] kind = "cntids4" -> CntIDs(n, 4, tag)
    [] kind = "note0" -> NoteEl(n, 0, tag) [] kind = "note3" -> NoteEl(n, 3, tag) [] kind = "note6" -> NoteEl(n, 6, tag)
    [] kind = "note14" -> NoteEl(n, 14, tag)
    [] kind = "regload2" -> LET f == MF(Nm(n, 1), DecMF(tag), tag, FALSE) IN
                            El(n, [T |-> "NXActionRegLoad2", DstField |-> f.tree], f.ops \o <<New(n, "NewNXActionRegLoad2", <<Ref(f.n)>>)>>)
    [] kind = "regload2m" -> LET f == MF(Nm(n, 1), DecMF(tag * 5), tag, TRUE) IN
                            El(n, [T |-> "NXActionRegLoad2", DstField |-> f.tree], f.ops \o <<New(n, "NewNXActionRegLoad2", <<Ref(f.n)>>)>>)
    [] kind = "controller" -> El(n, [T |-> "NXActionController", MaxLen |-> V(tag, 2), ControllerID |-> V(tag + 1, 2), Reason |-> V(tag + 2, 1)],
                                 <<New(n, "NewNXActionController", <<V(tag + 1, 2)>>), Set(n, "MaxLen", V(tag, 2)), Set(n, "Reason", V(tag + 2, 1))>>)
    [] kind = "learn0" -> LearnEl(n, <<>>, tag)
    [] kind = "learn1" -> LearnEl(n, <<LearnSpecEl(Nm(n, 1), (<<"mv", "mf", "lv", "lf", "of">>)[1 + (tag % 5)], (<<1, 8, 16, 17, 32, 48, 64, 128>>)[1 + (tag % 8)], tag)>>, tag)
    [] kind = "learn2" -> LearnEl(n, <<LearnSpecEl(Nm(n, 1), (<<"mv", "mf", "lv", "lf", "of">>)[1 + (tag % 5)], (<<8, 24, 1, 16, 40, 13, 48, 33>>)[1 + (tag % 8)], tag),
                                       LearnSpecEl(Nm(n, 2), (<<"lv", "of", "mf", "mv", "lf">>)[1 + (tag % 5)], (<<16, 9, 48, 7, 32, 1, 20, 12>>)[1 + (tag % 8)], tag + 9)>>, tag)
    [] kind = "nat0" -> NatEl(n, {}, tag) [] kind = "nat4" -> NatEl(n, {"4min"}, tag) [] kind = "nat44" -> NatEl(n, {"4min", "4max"}, tag)
    [] kind = "nat6" -> NatEl(n, {"6min", "6max"}, tag) [] kind = "natp" -> NatEl(n, {"4min", "pmin", "pmax"}, tag)
    [] kind = "natall" -> NatEl(n, {"4min", "4max", "pmin", "pmax"}, tag) [] kind = "natpmax" -> NatEl(n, {"4min", "pmax"}, tag)
\* conntrack with nested actions (children complete before they are added)
CtForceEl(n, kids, tag) ==
  LET t == [T |-> "NXActionConnTrack", Flags |-> <<0, 3>>, ZoneSrc |-> Zeros(4), ZoneOfsNbits |-> V(tag, 2), RecircTable |-> V(tag + 1, 1), Alg |-> <<0, 0>>,
            Actions |-> TreesOf(kids)] IN
  El(n, t, OpsOf(kids) \o <<New(n, "NewNXActionConnTrack", <<>>), Call(n, "Force", <<>>), Call(n, "Commit", <<>>), Call(n, "ZoneImm", <<V(tag, 2)>>), Call(n, "Table", <<t.RecircTable>>)>>
       \o [i \in DOMAIN kids |-> Call(n, "AddAction", <<Ref(kids[i].n)>>)])
CtEl(n, kids, tag, zoneRange) ==
  LET zf == HdrField(Nm(n, 90), "NXM_NX_REG" \o ToString(tag % 16), FALSE)
      f == tag % 20   l == f + (tag % 12)
      t == [T |-> "NXActionConnTrack", Flags |-> <<0, 1>>, ZoneSrc |-> (IF zoneRange THEN HeaderWord(zf.tree) ELSE Zeros(4)),
            ZoneOfsNbits |-> (IF zoneRange THEN BE16(f * 64 + (l - f)) ELSE V(tag, 2)), RecircTable |-> V(tag + 1, 1),
            Alg |-> V(tag + 2, 2), Actions |-> TreesOf(kids)]
      zops == IF zoneRange THEN zf.ops \o <<New(Nm(n, 91), "NewNXRange", <<f, l>>), Call(n, "ZoneRange", <<Ref(zf.n), Ref(Nm(n, 91))>>)>>
              ELSE <<Call(n, "ZoneImm", <<V(tag, 2)>>)>> IN
  El(n, t, OpsOf(kids) \o <<New(n, "NewNXActionConnTrack", <<>>), Call(n, "Commit", <<>>), Call(n, "Table", <<t.RecircTable>>)>> \o zops
       \o <<Set(n, "Alg", t.Alg)>> \o [i \in DOMAIN kids |-> Call(n, "AddAction", <<Ref(kids[i].n)>>)])

\* the zone is set twice, by the other setter first: the last call counts (immediate zone: zone_src 0; range: the field's header)
CtZoneSeqEl(n, kids, tag, lastRange) ==
  LET e == CtEl(n, kids, tag, lastRange)
      zf2 == HdrField(Nm(n, 92), "NXM_NX_REG" \o ToString((tag + 3) % 16), FALSE)
      first == IF lastRange THEN <<Call(n, "ZoneImm", <<V(tag + 9, 2)>>)>>
               ELSE zf2.ops \o <<New(Nm(n, 93), "NewNXRange", <<2, 9>>), Call(n, "ZoneRange", <<Ref(zf2.n), Ref(Nm(n, 93))>>)>>
      k == CHOOSE i \in DOMAIN e.ops : e.ops[i].op = "call" /\ e.ops[i].m = "Table" IN
  El(n, e.tree, SubSeq(e.ops, 1, k) \o first \o SubSeq(e.ops, k + 1, Len(e.ops)))
\* ---------------------------------------------------------------- instructions, buckets
\* adds: sequence of <<element, prepend>>; the resulting order is the specification's meaning of append / prepend
RECURSIVE OrderOf(_)
OrderOf(adds) == IF adds = <<>> THEN <<>>
                 ELSE LET init == OrderOf(SubSeq(adds, 1, Len(adds) - 1))  last == adds[Len(adds)] IN
                      IF last[2] THEN <<last[1]>> \o init ELSE Append(init, last[1])
InstrActs(n, kind, adds) ==
  LET kids == [i \in DOMAIN adds |-> adds[i][1]] IN
  El(n, [T |-> "InstrActions", Type |-> (IF kind = "apply" THEN <<0, 4>> ELSE <<0, 3>>), Actions |-> TreesOf(OrderOf(adds))],
     OpsOf(kids) \o <<New(n, IF kind = "apply" THEN "NewInstrApplyActions" ELSE "NewInstrWriteActions", <<>>)>>
       \o [i \in DOMAIN adds |-> Call(n, "AddAction", <<Ref(adds[i][1].n), adds[i][2]>>)])
Goto(n, tag) == El(n, [T |-> "InstrGotoTable", TableId |-> V(tag, 1)], <<New(n, "NewInstrGotoTable", <<V(tag, 1)>>)>>)
WriteMeta(n, tag) == El(n, [T |-> "InstrWriteMetadata", Metadata |-> V(tag, 8), MetadataMask |-> V(tag + 1, 8)],
                        <<New(n, "NewInstrWriteMetadata", <<V(tag, 8), V(tag + 1, 8)>>)>>)
BucketEl(n, kids, tag) ==
  LET t == [T |-> "Bucket", Weight |-> V(tag, 2), WatchPort |-> V(tag + 1, 4), WatchGroup |-> V(tag + 2, 4), Actions |-> TreesOf(kids)] IN
  El(n, t, OpsOf(kids) \o <<New(n, "NewBucket", <<>>), Set(n, "Weight", t.Weight), Set(n, "WatchPort", t.WatchPort), Set(n, "WatchGroup", t.WatchGroup)>>
       \o [i \in DOMAIN kids |-> Call(n, "AddAction", <<Ref(kids[i].n)>>)])

\* ---------------------------------------------------------------- messages
Xid(tag) == V(tag + 200, 4)
FlowModEl(n, cmd, fields, instrs, tag) ==
  LET t == [T |-> "FlowMod", Header |-> [Xid |-> Xid(tag)], Cookie |-> V(tag, 8), CookieMask |-> V(tag + 1, 8), TableId |-> V(tag + 2, 1), Command |-> <<cmd>>,
            IdleTimeout |-> V(tag + 3, 2), HardTimeout |-> V(tag + 4, 2), Priority |-> V(tag + 5, 2), BufferId |-> V(tag + 6, 4),
            OutPort |-> V(tag + 7, 4), OutGroup |-> V(tag + 8, 4), Flags |-> V(tag + 9, 2), Match |-> Match(fields), Instructions |-> TreesOf(instrs)] IN
  El(n, t, OpsOf(fields) \o OpsOf(instrs) \o <<New(n, "NewFlowMod", <<>>), Set(n, "Xid", t.Header.Xid), Set(n, "Cookie", t.Cookie),
       Set(n, "CookieMask", t.CookieMask), Set(n, "TableId", t.TableId), Set(n, "Command", t.Command), Set(n, "IdleTimeout", t.IdleTimeout),
       Set(n, "HardTimeout", t.HardTimeout), Set(n, "Priority", t.Priority), Set(n, "BufferId", t.BufferId), Set(n, "OutPort", t.OutPort),
       Set(n, "OutGroup", t.OutGroup), Set(n, "Flags", t.Flags)>>
       \o [i \in DOMAIN fields |-> CallP(n, "Match", "AddField", <<Ref(fields[i].n)>>)]
       \o [i \in DOMAIN instrs |-> Call(n, "AddInstruction", <<Ref(instrs[i].n)>>)])
GroupModEl(n, cmd, gtype, buckets, tag) ==
  LET t == [T |-> "GroupMod", Header |-> [Xid |-> Xid(tag)], Command |-> <<0, cmd>>, Type |-> <<gtype>>, GroupId |-> V(tag, 4), Buckets |-> TreesOf(buckets)] IN
  El(n, t, OpsOf(buckets) \o <<New(n, "NewGroupMod", <<>>), Set(n, "Xid", t.Header.Xid), Set(n, "Command", t.Command), Set(n, "Type", t.Type),
       Set(n, "GroupId", t.GroupId)>> \o [i \in DOMAIN buckets |-> Call(n, "AddBucket", <<Ref(buckets[i].n)>>)])
PacketOutEl(n, acts, datalen, tag) ==
  LET t == [T |-> "PacketOut", Header |-> [Xid |-> Xid(tag)], BufferId |-> V(tag, 4), InPort |-> V(tag + 1, 4), Actions |-> TreesOf(acts), Data |-> [T |-> "Buffer", B |-> V(tag + 2, datalen)]] IN
  El(n, t, OpsOf(acts) \o <<New(n, "NewPacketOut", <<>>), Set(n, "Xid", t.Header.Xid), Set(n, "BufferId", t.BufferId), Set(n, "InPort", t.InPort)>>
       \o [i \in DOMAIN acts |-> Call(n, "AddAction", <<Ref(acts[i].n)>>)] \o <<Call(n, "SetData", <<t.Data.B>>)>>)
SimpleKinds == {"echoreq", "echorep", "featreq", "confreq", "barrier", "hello", "hello3e", "setconfig", "portmod", "portmod0", "portmod8", "setctrlid", "tlvreq"}
MpKinds == {"desc", "flow", "aggregate", "table", "portdesc"}
SimpleEl(n, kind, tag) ==
  CASE kind = "echoreq"  -> El(n, [T |-> "Header", Type |-> <<2>>, Xid |-> Xid(tag)], <<New(n, "NewEchoRequest", <<>>), Set(n, "Xid", Xid(tag))>>)
    [] kind = "echorep"  -> El(n, [T |-> "Header", Type |-> <<3>>, Xid |-> Xid(tag)], <<New(n, "NewEchoReply", <<>>), Set(n, "Xid", Xid(tag))>>)
    [] kind = "featreq"  -> El(n, [T |-> "Header", Type |-> <<5>>, Xid |-> Xid(tag)], <<New(n, "NewFeaturesRequest", <<>>), Set(n, "Xid", Xid(tag))>>)
    [] kind = "confreq"  -> El(n, [T |-> "Header", Type |-> <<7>>, Xid |-> Xid(tag)], <<New(n, "NewConfigRequest", <<>>), Set(n, "Xid", Xid(tag))>>)
    [] kind = "barrier"  -> El(n, [T |-> "Header", Type |-> <<20>>, Xid |-> Xid(tag)],
                               <<New(n, "NewOfp13Header", <<>>), Set(n, "Type", <<20>>), Set(n, "Xid", Xid(tag))>>)
    [] kind = "hello"    -> El(n, [T |-> "Hello", Header |-> [Xid |-> Xid(tag)], Elements |-> << [T |-> "HelloElemVersionBitmap", Bitmaps |-> << V(tag, 4) >>] >>],
                               <<New(Nm(n, 1), "NewHelloElemVersionBitmap", <<>>), Set(Nm(n, 1), "Bitmaps", << V(tag, 4) >>),
                                 New(n, "NewHello", <<4>>), Set(n, "Xid", Xid(tag)), Set(n, "Elements", <<Ref(Nm(n, 1))>>)>>)
    [] kind = "hello3e"  ->                            \* several elements, bitmaps of 2, 1 and 3 words (element lengths 12, 8, 16: the first needs padding)
         LET bm(i) == [j \in 1..(<<2, 1, 3>>)[i] |-> V(tag + 10 * i + j, 4)]
             e(i) == [T |-> "HelloElemVersionBitmap", Bitmaps |-> bm(i)] IN
         El(n, [T |-> "Hello", Header |-> [Xid |-> Xid(tag)], Elements |-> <<e(1), e(2), e(3)>>],
            Flat([i \in 1..3 |-> <<New(Nm(n, i), "NewHelloElemVersionBitmap", <<>>), Set(Nm(n, i), "Bitmaps", bm(i))>>])
              \o <<New(n, "NewHello", <<4>>), Set(n, "Xid", Xid(tag)), Set(n, "Elements", <<Ref(Nm(n, 1)), Ref(Nm(n, 2)), Ref(Nm(n, 3))>>)>>)
    [] kind = "setconfig" -> El(n, [T |-> "SwitchConfig", Header |-> [Type |-> <<9>>, Xid |-> Xid(tag)], Flags |-> V(tag, 2), MissSendLen |-> V(tag + 1, 2)],
                                <<New(n, "NewSetConfig", <<>>), Set(n, "Xid", Xid(tag)), Set(n, "Flags", V(tag, 2)), Set(n, "MissSendLen", V(tag + 1, 2))>>)
    [] kind = "portmod"  -> El(n, [T |-> "PortMod", Header |-> [Xid |-> Xid(tag)], PortNo |-> <<0, 0, 0, 7>>, HWAddr |-> V(tag, 6), Config |-> V(tag + 1, 4),
                                   Mask |-> V(tag + 2, 4), Advertise |-> V(tag + 3, 4)],
                               <<New(n, "NewPortMod", <<7>>), Set(n, "Xid", Xid(tag)), Set(n, "HWAddr", V(tag, 6)), Set(n, "Config", V(tag + 1, 4)),
                                 Set(n, "Mask", V(tag + 2, 4)), Set(n, "Advertise", V(tag + 3, 4))>>)
    [] kind \in {"portmod0", "portmod8"} ->           \* the address left unset (port-mod that does not change it) or longer than the 6-byte slot
         LET hw == V(tag, IF kind = "portmod0" THEN 0 ELSE 8) IN
         El(n, [T |-> "PortMod", Header |-> [Xid |-> Xid(tag)], PortNo |-> <<0, 0, 0, 7>>, HWAddr |-> hw, Config |-> V(tag + 1, 4),
                Mask |-> V(tag + 2, 4), Advertise |-> V(tag + 3, 4)],
            <<New(n, "NewPortMod", <<7>>), Set(n, "Xid", Xid(tag)), Set(n, "HWAddr", hw), Set(n, "Config", V(tag + 1, 4)),
              Set(n, "Mask", V(tag + 2, 4)), Set(n, "Advertise", V(tag + 3, 4))>>)
    [] kind = "setctrlid" -> El(n, [T |-> "VendorHeader", Header |-> [Xid |-> Xid(tag)], Vendor |-> NxVendor, ExperimenterType |-> <<0, 0, 0, 20>>,
                                    VendorData |-> [T |-> "ControllerID", ID |-> V(tag, 2)]],
                                <<New(n, "NewSetControllerID", <<V(tag, 2)>>), Set(n, "Header.Xid", Xid(tag))>>)
    [] kind = "tlvreq"   -> El(n, [T |-> "VendorHeader", Header |-> [Xid |-> Xid(tag)], Vendor |-> NxVendor, ExperimenterType |-> <<0, 0, 0, 25>>,
                                   VendorData |-> [T |-> "nil"]],
                               <<New(n, "NewTLVTableRequest", <<>>), Set(n, "Header.Xid", Xid(tag))>>)
TlvMapEl(n, tag) == LET t == [T |-> "TLVTableMap", OptClass |-> V(tag, 2), OptType |-> V(tag + 1, 1), OptLength |-> V(tag + 2, 1), Index |-> V(tag + 3, 2)] IN
  El(n, t, <<NewT(n, "TLVTableMap"), Set(n, "OptClass", t.OptClass), Set(n, "OptType", t.OptType), Set(n, "OptLength", t.OptLength), Set(n, "Index", t.Index)>>)
TlvModEl(n, k, tag) ==
  LET maps == [i \in 1..k |-> TlvMapEl(Nm(n, i), tag + 10 * i)] IN
  El(n, [T |-> "VendorHeader", Header |-> [Xid |-> Xid(tag)], Vendor |-> NxVendor, ExperimenterType |-> <<0, 0, 0, 24>>,
         VendorData |-> [T |-> "TLVTableMod", Command |-> V(tag, 2), TlvMaps |-> TreesOf(maps)]],
     OpsOf(maps) \o <<New(Nm(n, 0), "NewTLVTableMod", <<V(tag, 2), RefsOf(maps)>>), New(n, "NewTLVTableModMessage", <<Ref(Nm(n, 0))>>),
                     Set(n, "Header.Xid", Xid(tag))>>)
MpReqEl(n, kind, fields, tag) ==
  LET body == CASE kind \in {"desc", "table", "portdesc"} -> [T |-> "nil"]
                [] kind \in {"flow", "aggregate"} ->
                     [T |-> (IF kind = "flow" THEN "FlowStatsRequest" ELSE "AggregateStatsRequest"), TableId |-> V(tag, 1), OutPort |-> V(tag + 1, 4),
                      OutGroup |-> V(tag + 2, 4), Cookie |-> V(tag + 3, 8), CookieMask |-> V(tag + 4, 8), Match |-> Match(fields)]
      mtype == CASE kind = "desc" -> 0 [] kind = "flow" -> 1 [] kind = "aggregate" -> 2 [] kind = "table" -> 3 [] kind = "portdesc" -> 13
      bn == Nm(n, 0)
      bops == IF body.T = "nil" THEN <<>>
              ELSE OpsOf(fields) \o <<New(bn, IF kind = "flow" THEN "NewFlowStatsRequest" ELSE "NewAggregateStatsRequest", <<>>),
                     Set(bn, "TableId", body.TableId), Set(bn, "OutPort", body.OutPort), Set(bn, "OutGroup", body.OutGroup),
                     Set(bn, "Cookie", body.Cookie), Set(bn, "CookieMask", body.CookieMask)>>
                   \o [i \in DOMAIN fields |-> CallP(bn, "Match", "AddField", <<Ref(fields[i].n)>>)] IN
  El(n, [T |-> "MultipartRequest", Header |-> [Xid |-> Xid(tag)], Type |-> <<0, mtype>>, Flags |-> <<0, tag % 2>>, Body |-> body],
     bops \o <<NewT(n, "MultipartRequest"), New(Nm(n, 9), "NewOfp13Header", <<>>), Set(n, "Header", Ref(Nm(n, 9))), Set(n, "Header.Type", <<18>>),
               Set(n, "Header.Xid", Xid(tag)), Set(n, "Type", <<0, mtype>>), Set(n, "Flags", <<0, tag % 2>>)>>
       \o (IF body.T = "nil" THEN <<>> ELSE <<Set(n, "Body", Ref(bn))>>))
BundleCtrlEl(n, tag) ==
  LET t == [T |-> "BundleControl", BundleID |-> V(tag, 4), Type |-> <<0, tag % 6>>, Flags |-> <<0, 1 + (tag % 3)>>] IN
  El(n, [T |-> "VendorHeader", Header |-> [Xid |-> Xid(tag)], Vendor |-> <<79, 78, 70, 0>>, ExperimenterType |-> <<0, 0, 8, 252>>, VendorData |-> t],
     <<NewT(Nm(n, 0), "BundleControl"), Set(Nm(n, 0), "BundleID", t.BundleID), Set(Nm(n, 0), "Type", t.Type), Set(Nm(n, 0), "Flags", t.Flags),
       New(n, "NewBundleControl", <<Ref(Nm(n, 0))>>), Set(n, "Header.Xid", Xid(tag))>>)
\* bundle-add carrying np experimenter properties (the API offers no way to give a property data: header-only properties)
BundleAddPropsEl(n, inner, np, tag) ==
  LET props == [i \in 1..np |-> LET t == [T |-> "BundlePropertyExperimenter", ExperimenterID |-> V(tag + i, 4), ExperimenterType |-> V(tag + i + 1, 4), Data |-> <<>>] IN
                                 El(Nm(n, 20 + i), t, <<New(Nm(n, 20 + i), "NewBundlePropertyExperimenter", <<>>), Set(Nm(n, 20 + i), "ExperimenterID", t.ExperimenterID),
                                                         Set(Nm(n, 20 + i), "ExperimenterType", t.ExperimenterType)>>)]
      t == [T |-> "BundleAdd", BundleID |-> V(tag, 4), Flags |-> <<0, 1 + (tag % 3)>>, Message |-> inner.tree, Properties |-> TreesOf(props)] IN
  El(n, [T |-> "VendorHeader", Header |-> [Xid |-> Xid(tag + 50)], Vendor |-> <<79, 78, 70, 0>>, ExperimenterType |-> <<0, 0, 8, 253>>, VendorData |-> t],
     inner.ops \o OpsOf(props) \o <<NewT(Nm(n, 0), "BundleAdd"), Set(Nm(n, 0), "BundleID", t.BundleID), Set(Nm(n, 0), "Flags", t.Flags),
                    Set(Nm(n, 0), "Message", Ref(inner.n)), Set(Nm(n, 0), "Properties", RefsOf(props)), New(n, "NewBundleAdd", <<Ref(Nm(n, 0))>>),
                    Set(n, "Header.Xid", Xid(tag + 50))>>)
BundleAddEl(n, inner, tag) ==
  LET t == [T |-> "BundleAdd", BundleID |-> V(tag, 4), Flags |-> <<0, 1 + (tag % 3)>>, Message |-> inner.tree, Properties |-> <<>>] IN
  El(n, [T |-> "VendorHeader", Header |-> [Xid |-> Xid(tag + 50)], Vendor |-> <<79, 78, 70, 0>>, ExperimenterType |-> <<0, 0, 8, 253>>, VendorData |-> t],
     inner.ops \o <<NewT(Nm(n, 0), "BundleAdd"), Set(Nm(n, 0), "BundleID", t.BundleID), Set(Nm(n, 0), "Flags", t.Flags),
                    Set(Nm(n, 0), "Message", Ref(inner.n)), New(n, "NewBundleAdd", <<Ref(Nm(n, 0))>>), Set(n, "Header.Xid", Xid(tag + 50))>>)
=============================================================================
