----------------------------- MODULE RegistryGen -----------------------------
(* Generators for C15.                                                        *)
(*  "N": every registered name x mask on/off x {upper, lower, mixed} case,    *)
(*       plus names that must be unknown; each with a lookup / mutate the     *)
(*       result / lookup-again history.                                       *)
(*  "L": header words: all 65 536 (field|mask, length) low halves for one     *)
(*       class.   "C": all 65 536 classes for one low half.                   *)
EXTENDS Registry
CONSTANTS Family, Stride, ClassArg, LowArg
VARIABLE c
Unknown == {"", "NXM_NX_REG16", "NXM_NX_REG", "OXM_OF_IN_PORTX", "XXM_OF_IN_PORT", "NXM_NX_XXREG4", "reg0", "NXM_NX_CT_STATES"}
Init == c = <<>>
NextN == \/ \E nm \in Names, m \in {0, 1}, cs \in {"upper", "lower", "mixed"} :
              c' = <<nm, m, cs>> /\ PrintT(ToJson([k |-> "lookup", name |-> nm, mask |-> m, case |-> cs]))
         \/ \E nm \in Unknown, m \in {0, 1} :
              c' = <<nm, m>> /\ PrintT(ToJson([k |-> "lookup", name |-> nm, mask |-> m, case |-> "asis"]))
NextL == \E fm \in 0..255, ln \in 0..255 :
           /\ (fm * 256 + ln) % Stride = 0
           /\ c' = <<fm, ln>>
           /\ PrintT(ToJson([k |-> "pack", class |-> ClassArg, field |-> fm \div 2, mask |-> fm % 2, len |-> ln,
                             word |-> Pack(ClassArg, fm \div 2, fm % 2, ln)]))
NextC == \E cl \in 0..65535 :
           /\ cl % Stride = 0
           /\ c' = <<cl>>
           /\ PrintT(ToJson([k |-> "pack", class |-> cl, field |-> LowArg[1], mask |-> LowArg[2], len |-> LowArg[3],
                             word |-> Pack(cl, LowArg[1], LowArg[2], LowArg[3])]))
Next == c = <<>> /\ CASE Family = "N" -> NextN [] Family = "L" -> NextL [] Family = "C" -> NextC
Spec == Init /\ [][Next]_c
ASSUME UniqueNames
ASSUME UniqueCodes
\* Pack/Unpack are inverses on the specification (all field/mask/length values, sampled classes)
ASSUME \A f \in 0..127, m \in {0, 1}, ln \in {0, 1, 127, 128, 255}, cl \in {0, 1, 32768, 65535} :
         LET w == Pack(cl, f, m, ln) IN
           /\ UnpackClass(w) = cl /\ UnpackField(w) = f /\ UnpackMask(w) = m /\ UnpackLen(w) = ln
=============================================================================
