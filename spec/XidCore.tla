-------------------------------- MODULE XidCore ------------------------------
(* The process-wide transaction-id generator (common/header.go): a shared   *)
(* counter advanced by every draw.  Atomic = TRUE models the code           *)
(* (fetch-and-add, returning the new value); Atomic = FALSE splits the draw *)
(* into a read and a write-back, which TLC must refute (sensitivity).       *)
EXTENDS Integers, Sequences, FiniteSets, TLC
CONSTANTS Procs, Draws, Atomic
VARIABLES counter, pc, tmp, got
vars == <<counter, pc, tmp, got>>
Init == /\ counter = 1 /\ pc = [p \in Procs |-> "idle"] /\ tmp = [p \in Procs |-> 0]
        /\ got = [p \in Procs |-> <<>>]
Draw(p) == /\ Atomic /\ pc[p] = "idle" /\ Len(got[p]) < Draws
           /\ counter' = counter + 1
           /\ got' = [got EXCEPT ![p] = Append(@, counter + 1)]
           /\ UNCHANGED <<pc, tmp>>
DrawRead(p) == /\ ~Atomic /\ pc[p] = "idle" /\ Len(got[p]) < Draws
               /\ tmp' = [tmp EXCEPT ![p] = counter] /\ pc' = [pc EXCEPT ![p] = "write"]
               /\ UNCHANGED <<counter, got>>
DrawWrite(p) == /\ ~Atomic /\ pc[p] = "write"
                /\ counter' = tmp[p] + 1
                /\ got' = [got EXCEPT ![p] = Append(@, tmp[p] + 1)]
                /\ pc' = [pc EXCEPT ![p] = "idle"] /\ UNCHANGED tmp
Next == \E p \in Procs : Draw(p) \/ DrawRead(p) \/ DrawWrite(p)
Spec == Init /\ [][Next]_vars
=============================================================================
