------------------------------ MODULE BitRange ------------------------------
(* Bit ranges of 32-bit registers and the NXM "ofs_nbits" word (OVS           *)
(* nicira-ext.h: ofs_nbits = (ofs << 6) | (n_bits - 1); offset in the upper   *)
(* 10 bits, width minus one in the lower 6).                                  *)
EXTENDS Bytes, TLC, Json
Ranges == {<<f, l>> \in (0..31) \X (0..31) : f <= l}          \* 528 ranges
OfsN   == (0..1023) \X (1..64)                                \* 65 536 pairs

MaskBits(f, l) == f..l
Mask32(f, l) == BitsToBytes(MaskBits(f, l), 4)
OfsNbitsWord(o, n) == o * 64 + (n - 1)                        \* < 65536
OfsNbits(o, n) == BE16(OfsNbitsWord(o, n))
DecodeOfs(w) == w \div 64
DecodeNbits(w) == (w % 64) + 1
RangeOfsNbits(f, l) == OfsNbits(f, l - f + 1)

=============================================================================
