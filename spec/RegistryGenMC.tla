---------------------------- MODULE RegistryGenMC ----------------------------
EXTENDS RegistryGen
LowDef == <<11, 0, 4>>     \* (field, mask, length) of the fixed low half in the class sweep
=============================================================================
