------------------------------- MODULE PktWire -------------------------------
(* Packet headers (Ethernet with 802.1Q tag, ARP, IPv4, IPv6 with its         *)
(* hop-by-hop / routing / fragment extension headers and options, ICMP, UDP,  *)
(* TCP, IGMP v1-v3), written from the RFCs (791, 792, 768, 793, 826, 8200,    *)
(* 3376) and IEEE 802.1Q, not from the Go code.  Trees have the shape of the  *)
(* projected Go values: T = type name, one entry per exported field, values   *)
(* as byte sequences (big-endian, of the Go field's size); byte buffers are   *)
(* [T |-> "Buffer", B |-> bytes]; absent parts are [T |-> "nil"].             *)
EXTENDS Bytes, TLC, Json
PHas(r, f) == f \in DOMAIN r
PU16(b) == b[1] * 256 + b[2]
PBool(x) == IF x THEN 1 ELSE 0
IsNil(x) == x.T = "nil"
\* the 802.1Q tag is present iff the tag carries anything (a VLAN id, a priority or the DEI bit)
Tagged(v) == v.VID # <<0, 0>> \/ v.PCP # <<0>> \/ v.DEI # <<0>>
TCI(v) == << v.PCP[1] * 32 + v.DEI[1] * 16 + v.VID[1], v.VID[2] >>
EncOption(o) == o.Type \o o.Length \o Fix(o.Data, o.Length[1])      \* Data cut / zero-filled to the declared length
EncHbh(h) == LET body == h.NextHeader \o h.HEL \o Flat([i \in DOMAIN h.Options |-> EncOption(h.Options[i])]) IN
             body \o Zeros(8 * (h.HEL[1] + 1) - Len(body))
EncRouting(h) == h.NextHeader \o h.HEL \o h.RoutingType \o h.SegmentsLeft \o h.Data.B
EncFragment(h) == h.NextHeader \o h.Reserved \o BE16(PU16(h.FragmentOffset) * 8 + PBool(h.MoreFragments)) \o h.Identification
\* extension headers follow the next-header chain; each kind occupies one slot of the Go value
RECURSIVE EncExt(_, _, _)
EncExt(p, next, left) ==
  IF next = 0 /\ "hbh" \in left /\ ~IsNil(p.HbhHeader) THEN EncHbh(p.HbhHeader) \o EncExt(p, p.HbhHeader.NextHeader[1], left \ {"hbh"})
  ELSE IF next = 43 /\ "rt" \in left /\ ~IsNil(p.RoutingHeader) THEN EncRouting(p.RoutingHeader) \o EncExt(p, p.RoutingHeader.NextHeader[1], left \ {"rt"})
  ELSE IF next = 44 /\ "fr" \in left /\ ~IsNil(p.FragmentHeader) THEN EncFragment(p.FragmentHeader) \o EncExt(p, p.FragmentHeader.NextHeader[1], left \ {"fr"})
  ELSE <<>>
RECURSIVE FinalNext(_, _, _)
FinalNext(p, next, left) ==
  IF next = 0 /\ "hbh" \in left /\ ~IsNil(p.HbhHeader) THEN FinalNext(p, p.HbhHeader.NextHeader[1], left \ {"hbh"})
  ELSE IF next = 43 /\ "rt" \in left /\ ~IsNil(p.RoutingHeader) THEN FinalNext(p, p.RoutingHeader.NextHeader[1], left \ {"rt"})
  ELSE IF next = 44 /\ "fr" \in left /\ ~IsNil(p.FragmentHeader) THEN FinalNext(p, p.FragmentHeader.NextHeader[1], left \ {"fr"})
  ELSE next
AllExt == {"hbh", "rt", "fr"}
EncGroupRecord(r) == r.Type \o r.AuxDataLen \o r.NumberOfSources \o r.MulticastAddress \o Flat(r.SourceAddresses) \o Flat(r.AuxData)
\* DHCP (RFC 2131 / 2132): fixed 236-byte header, magic cookie, options (pad and end are single bytes)
EncDhcpOpt(o) == IF o.Tag \in {<<0>>, <<255>>} THEN o.Tag ELSE o.Tag \o <<Len(o.Data)>> \o o.Data
\* (the Go value of an option is projected as [T |-> "DHCPOption", Tag, Data])
HasEnd(opts) == \E i \in DOMAIN opts : opts[i].Tag = <<255>>
EncDhcp(d) == d.Operation \o d.HardwareType \o d.HardwareLen \o d.HardwareOpts \o d.Xid \o d.Secs \o d.Flags \o d.ClientIP \o d.YourIP
              \o d.ServerIP \o d.GatewayIP \o d.ClientHWAddr \o Zeros(16 - Len(d.ClientHWAddr)) \o d.ServerName \o Zeros(64 - Len(d.ServerName)) \o d.File \o Zeros(128 - Len(d.File)) \o <<99, 130, 83, 99>>
              \o Flat([i \in DOMAIN d.Options |-> EncDhcpOpt(d.Options[i])]) \o (IF HasEnd(d.Options) THEN <<>> ELSE <<255>>)
\* LLDP TLV (IEEE 802.1AB): 7-bit type, 9-bit length of the value; chassis / port id values start with a subtype byte
LldpHdr(type, len) == BE16(type * 512 + len)
EncLldpId(t) == LldpHdr(t.Type[1], 1 + Len(t.Data)) \o t.Subtype \o t.Data
EncLldpTtl(t) == LldpHdr(t.Type[1], 2) \o t.Seconds
RECURSIVE EncPkt(_)
EncPayload(d) == IF d.T = "nil" THEN <<>> ELSE IF d.T = "Buffer" THEN d.B ELSE EncPkt(d)
EncPkt(p) ==
  CASE p.T = "Ethernet" -> p.HWDst \o p.HWSrc \o (IF Tagged(p.VLANID) THEN <<129, 0>> \o TCI(p.VLANID) ELSE <<>>) \o p.Ethertype \o EncPayload(p.Data)
    [] p.T = "VLAN" -> p.TPID \o TCI(p)
    [] p.T = "ARP"  -> p.HWType \o p.ProtoType \o p.HWLength \o p.ProtoLength \o p.Operation \o p.HWSrc \o p.IPSrc \o p.HWDst \o p.IPDst
    [] p.T = "IPv4" -> << p.Version[1] * 16 + p.IHL[1], p.DSCP[1] * 4 + p.ECN[1] >> \o p.Length \o p.Id
                       \o BE16(PU16(p.Flags) * 8192 + PU16(p.FragmentOffset)) \o p.TTL \o p.Protocol \o p.Checksum \o p.NWSrc \o p.NWDst
                       \o p.Options.B \o EncPayload(p.Data)
    [] p.T = "IPv6" -> << p.Version[1] * 16 + (p.TrafficClass[1] \div 16), (p.TrafficClass[1] % 16) * 16 + p.FlowLabel[2], p.FlowLabel[3], p.FlowLabel[4] >>
                       \o p.Length \o p.NextHeader \o p.HopLimit \o p.NWSrc \o p.NWDst \o EncExt(p, p.NextHeader[1], AllExt) \o EncPayload(p.Data)
    [] p.T = "HopByHopHeader" -> EncHbh(p) [] p.T = "RoutingHeader" -> EncRouting(p) [] p.T = "FragmentHeader" -> EncFragment(p)
    [] p.T = "Option" -> EncOption(p)
    [] p.T = "ICMP" -> p.Type \o p.Code \o p.Checksum \o p.Data
    [] p.T = "UDP"  -> p.PortSrc \o p.PortDst \o p.Length \o p.Checksum \o p.Data
    [] p.T = "TCP"  -> p.PortSrc \o p.PortDst \o p.SeqNum \o p.AckNum \o << p.HdrLen[1] * 16, p.Code[1] >> \o p.WinSize \o p.Checksum \o p.UrgFlag \o p.Data
    [] p.T = "IGMPv1or2" -> p.Type \o p.MaxResponseTime \o p.Checksum \o p.GroupAddress
    [] p.T = "IGMPv3Query" -> p.Type \o p.MaxResponseTime \o p.Checksum \o p.GroupAddress
                              \o << PBool(p.SuppressRouterProcessing) * 8 + p.RobustnessValue[1] >> \o p.IntervalTime \o p.NumberOfSources
                              \o Flat(p.SourceAddresses)
    [] p.T = "IGMPv3GroupRecord" -> EncGroupRecord(p)
    [] p.T = "IGMPv3MembershipReport" -> p.Type \o <<0>> \o p.Checksum \o <<0, 0>> \o p.NumberOfGroups
                                         \o Flat([i \in DOMAIN p.GroupRecords |-> EncGroupRecord(p.GroupRecords[i])])
    [] p.T = "DHCP" -> EncDhcp(p)
    [] p.T \in {"ChassisTLV", "PortTLV"} -> EncLldpId(p)
    [] p.T = "TTLTLV" -> EncLldpTtl(p)
    [] p.T = "Buffer" -> p.B
PktKinds == {"Ethernet", "VLAN", "ARP", "IPv4", "IPv6", "HopByHopHeader", "RoutingHeader", "FragmentHeader", "Option", "ICMP", "UDP", "TCP",
             "IGMPv1or2", "IGMPv3Query", "IGMPv3GroupRecord", "IGMPv3MembershipReport", "DHCP", "ChassisTLV", "PortTLV", "TTLTLV", "Buffer"}
\* which decoder the payload must be handed to (the kind of the decoded payload)
Demux(p) ==
  CASE p.T = "Ethernet" -> (CASE p.Ethertype = <<8, 0>> -> "IPv4" [] p.Ethertype = <<134, 221>> -> "IPv6" [] p.Ethertype = <<8, 6>> -> "ARP" [] OTHER -> "Buffer")
    [] p.T = "IPv4" -> (CASE p.Protocol = <<1>> -> "ICMP" [] p.Protocol = <<17>> -> "UDP" [] OTHER -> "Buffer")
    [] p.T = "IPv6" -> LET nx == FinalNext(p, p.NextHeader[1], AllExt) IN (CASE nx = 58 -> "ICMP" [] nx = 17 -> "UDP" [] OTHER -> "Buffer")
    [] OTHER -> "none"
=============================================================================
