------------------------------ MODULE StreamOut ------------------------------
(* util/stream.go, outbound side: producers send messages on the Outbound     *)
(* channel (capacity 1); one writer goroutine receives a message, encodes it  *)
(* and hands the encoding to the connection in one Write.  A message is a     *)
(* pair <<producer, index>>; its encoding is a frame identified by the pair.  *)
EXTENDS Integers, Sequences, FiniteSets, TLC
CONSTANTS Producers, PerProducer, TwoWriters, WriteFails, AppShuts
VARIABLES next, outbound, wpc, wmsg, wire, closed
vars == <<next, outbound, wpc, wmsg, wire, closed>>
Writers == IF TwoWriters THEN {1, 2} ELSE {1}
Init == /\ next = [p \in Producers |-> 1] /\ outbound = <<>>
        /\ wpc = [w \in Writers |-> "recv"] /\ wmsg = [w \in Writers |-> <<0, 0>>] /\ wire = <<>> /\ closed = FALSE
Submit(p) == /\ next[p] <= PerProducer /\ Len(outbound) < 1
             /\ outbound' = Append(outbound, <<p, next[p]>>) /\ next' = [next EXCEPT ![p] = @ + 1]
             /\ UNCHANGED <<wpc, wmsg, wire, closed>>
WRecv(w) == /\ wpc[w] = "recv" /\ outbound # <<>>
            /\ wmsg' = [wmsg EXCEPT ![w] = Head(outbound)] /\ outbound' = Tail(outbound)
            /\ wpc' = [wpc EXCEPT ![w] = "write"] /\ UNCHANGED <<next, wire, closed>>
WWrite(w) == /\ wpc[w] = "write" /\ ~closed /\ wire' = Append(wire, wmsg[w]) /\ wpc' = [wpc EXCEPT ![w] = "recv"]
             /\ UNCHANGED <<next, outbound, wmsg, closed>>
\* the application shuts the stream down: shutdown() closes the connection and then drains (discards) what is queued on Outbound;
\* the writer's next Write fails and it gives up.  Nothing is written by anyone but the writer.
AppShutdown == /\ AppShuts /\ ~closed /\ closed' = TRUE /\ UNCHANGED <<next, outbound, wpc, wmsg, wire>>
Drain == /\ closed /\ outbound # <<>> /\ outbound' = Tail(outbound) /\ UNCHANGED <<next, wpc, wmsg, wire, closed>>
WClosed(w) == /\ wpc[w] = "write" /\ closed /\ wpc' = [wpc EXCEPT ![w] = "dead"] /\ UNCHANGED <<next, outbound, wmsg, wire, closed>>
\* the connection accepts part of the frame and reports an error (a lapsed write deadline): outbound() gives up -- it logs fatally, the
\* writer goroutine ends, nothing is written any more (a retry that re-sent the whole message would put its prefix on the wire twice)
WFail(w) == /\ WriteFails /\ wpc[w] = "write"
            /\ wire' = Append(wire, <<wmsg[w][1], wmsg[w][2], "part">>) /\ wpc' = [wpc EXCEPT ![w] = "dead"]
            /\ UNCHANGED <<next, outbound, wmsg, closed>>
Next == (\E p \in Producers : Submit(p)) \/ (\E w \in Writers : WRecv(w) \/ WWrite(w) \/ WFail(w) \/ WClosed(w)) \/ AppShutdown \/ Drain
Spec == Init /\ [][Next]_vars /\ WF_vars(\E w \in Writers : WRecv(w) \/ WWrite(w)) /\ \A p \in Producers : WF_vars(Submit(p))
\* every frame on the wire is a submitted message, at most once
OnceOnly == \A i, j \in 1..Len(wire) : wire[i] = wire[j] => i = j
Submitted == \A i \in 1..Len(wire) : wire[i][2] < next[wire[i][1]]
\* messages of one producer appear in submission order
ProducerOrder == \A i, j \in 1..Len(wire) : (i < j /\ wire[i][1] = wire[j][1]) => wire[i][2] < wire[j][2]
\* a partially written frame is the last thing on the wire (with one writer)
IsPart(x) == Len(x) = 3
NothingAfterPartial == \A i \in 1..Len(wire) : IsPart(wire[i]) => i = Len(wire)
AllWritten == (~WriteFails /\ ~AppShuts) => <>[](Len(wire) = Cardinality(Producers) * PerProducer)
=============================================================================
