------------------------------- MODULE OFMutate -------------------------------
(* Adversarial input space for the totality properties (C07, C08): mutation    *)
(* machine over base frames.  BaseFile holds well-formed frames written by the *)
(* specification's encoders (OFSwGen.tla / PktGen.tla); for each frame the     *)
(* module lists every mutation as a descriptor <<op, pos, width, value>>:      *)
(*   "t" truncate to pos bytes            (every 0 <= pos < Len)               *)
(*   "s" set the width-byte big-endian field at pos to value                   *)
(*       (every byte position x 8-bit boundary values; every 16-bit position   *)
(*        x length-like boundary values relative to the frame length)          *)
(*   "f" fill width bytes at pos with value (32-bit fields all zero / all one) *)
(*   "x" extend the frame by width bytes of value                              *)
(*   "d" <<"d", p1, p2, v1, v2>> set two 16-bit length-like fields at once     *)
(* The acceptor is the property itself: every mutant must give a message or    *)
(* an error -- no panic, no unbounded time, no unbounded memory.               *)
EXTENDS Integers, Sequences, FiniteSets, TLC, Json
CONSTANTS BaseFile, Depth2, MaxLen
Base == ndJsonDeserialize(BaseFile)
VARIABLE c
W16(b, i) == b[i] * 256 + b[i + 1]
\* 8-bit boundaries incl. 256 - k: a small constant added to such a length wraps to a small number in 8-bit arithmetic
B8(x) == {0, 1, 2, 3, 4, 7, 8, 15, 16, 127, 128, 240, 244, 248, 250, 251, 252, 253, 254, 255, (x + 1) % 256, (x + 255) % 256}
\* length-like boundary values: tiny, header-sized (multiples of 4 and 8 up to 64, +-1), relative to the frame length, sign / wrap-around
\* boundaries of 16-bit arithmetic (2^16 - k wraps to a small number when a small constant is added or when rounded up to 8)
B16(n, x) == ({0, 1, 3, 4, 7, 8, 9, 12, 15, 16, 20, 23, 24, 25, 28, 31, 32, 33, 40, 48, 56, 60, 63, 64, 65, n - 1, n, n + 1, n + 8, 255, 256, 32767, 32768,
               (x + 1) % 65536, (x + 65535) % 65536, (x + 8) % 65536}
              \cup {65536 - k : k \in {1, 2, 4, 7, 8, 9, 15, 16, 24, 32, 40, 48, 56, 64}}) \cap (0..65535)
SetToSeq(S) == LET RECURSIVE F(_) F(T) == IF T = {} THEN <<>> ELSE LET x == CHOOSE y \in T : \A z \in T : y <= z IN <<x>> \o F(T \ {x}) IN F(S)
RECURSIVE Cat(_)
Cat(ss) == IF ss = <<>> THEN <<>> ELSE Head(ss) \o Cat(Tail(ss))
\* positions holding a plausible length (value between 4 and the frame length): candidates for double mutations
LengthLike(b) == {p \in 1..(Len(b) - 1) : W16(b, p) >= 4 /\ W16(b, p) <= Len(b)}
\* win = <<h, t>> confines the mutated positions of a (very large) frame to its first h and last t bytes; <<0, 0>> = every position
InWin(n, win, p) == win = <<0, 0>> \/ p <= win[1] \/ p > n - win[2]
Muts(b, win, deep, lite) ==
  LET n == Len(b)
      P(hi) == SetToSeq({p \in 1..hi : InWin(n, win, p)})
      pn == P(n)  pn1 == P(n - 1)  pn3 == P(n - 3)
      tr == [k \in DOMAIN pn |-> <<"t", pn[k] - 1, 0, 0>>]
      s8 == Cat([k \in DOMAIN pn |-> LET p == pn[k]  vs == SetToSeq(B8(b[p]) \ {b[p]}) IN [i \in DOMAIN vs |-> <<"s", p, 1, vs[i]>>]])
      \* lite: only the 16-bit positions, only zero and the wrap-around boundaries (frames thinned out of the quick tier keep these)
      L16 == {0, 1, 65535} \cup {65536 - k : k \in {2, 4, 7, 8, 9, 15, 16, 24, 32, 40, 48, 56, 64}}
      s16 == Cat([k \in DOMAIN pn1 |-> LET p == pn1[k]  vs == SetToSeq((IF lite THEN L16 ELSE B16(n, W16(b, p))) \ {W16(b, p)}) IN [i \in DOMAIN vs |-> <<"s", p, 2, vs[i]>>]])
      f32 == Cat([k \in DOMAIN pn3 |-> << <<"f", pn3[k], 4, 0>>, <<"f", pn3[k], 4, 255>> >>])
      ext == << <<"x", 0, 1, 0>>, <<"x", 0, 7, 255>>, <<"x", 0, 8, 0>>, <<"x", 0, 64, 1>> >>
      ll == SetToSeq({p \in LengthLike(b) : InWin(n, win, p)})
      d2 == IF ~(Depth2 \/ deep) THEN <<>>
            ELSE Cat([i \in DOMAIN ll |-> Cat([j \in DOMAIN ll |->
                   IF i < j THEN [k \in 1..4 |-> <<"d", ll[i], ll[j], (<<0, 1, n + 1, 65535>>)[k], (<<65535, n + 1, 1, 0>>)[k]>>] ELSE <<>>])])
  IN IF lite THEN s16 ELSE tr \o s8 \o s16 \o f32 \o ext \o d2
Init == c = 0
Next == /\ c = 0
        /\ \E i \in 1..Len(Base) :
             /\ (Len(Base[i].frame) <= MaxLen \/ "win" \in DOMAIN Base[i])
             /\ c' = i
             /\ PrintT(ToJson([id |-> Base[i].id, k |-> "total", entry |-> Base[i].entry, kind |-> Base[i].kind, frame |-> Base[i].frame,
                               muts |-> Muts(Base[i].frame, IF "win" \in DOMAIN Base[i] THEN Base[i].win ELSE <<0, 0>>, "d2" \in DOMAIN Base[i] /\ Base[i].d2, "lite" \in DOMAIN Base[i] /\ Base[i].lite)]))
Spec == Init /\ [][Next]_c
=============================================================================
