------------------------------ MODULE XidTrace ------------------------------
(* Judge for C14.  A "draw" line carries, per goroutine, the ids it was      *)
(* handed (in its own order); the abstract action is "Draw returns an id     *)
(* never returned before", so the whole run is accepted iff the ids are      *)
(* pairwise distinct.  A "conc" line carries the comparison of values        *)
(* built / encoded / parsed concurrently with the same values processed one  *)
(* after another, and the race detector's report count.                      *)
EXTENDS Integers, Sequences, FiniteSets, TLC, Json
CONSTANT TraceFile
Trace == ndJsonDeserialize(TraceFile)
VARIABLES l, done
vars == <<l, done>>
Has(r, f) == f \in DOMAIN r
RECURSIVE SumLens(_, _)
SumLens(ss, i) == IF i > Len(ss) THEN 0 ELSE Len(ss[i]) + SumLens(ss, i + 1)
IdSet(ss) == UNION {{ss[g][i] : i \in 1..Len(ss[g])} : g \in 1..Len(ss)}
DrawChecks(e) ==
  LET o == e.obs IN
  IF ~Has(o, "ids") THEN << <<"no panic", FALSE>> >>
  ELSE
  << <<"every goroutine was handed the ids it asked for", Len(o.ids) = e.goroutines /\ \A g \in 1..Len(o.ids) : Len(o.ids[g]) = e.per>>,
     <<"transaction ids pairwise distinct across goroutines", Cardinality(IdSet(o.ids)) = SumLens(o.ids, 1)>>,
     <<"no data race reported", Has(o, "races") /\ o.races = 0>> >>
ConcChecks(e) ==
  LET o == e.obs IN
  << <<"no panic", ~Has(o, "panic")>>,
     <<"independent values give the same result whatever was processed before them (forward and reverse sequential passes agree)",
        Has(o, "orderMismatches") /\ o.orderMismatches = 0>>,
     <<"concurrent results equal sequential results", Has(o, "mismatches") /\ o.mismatches = 0 /\ o.compared = e.expect>>,
     <<"no data race reported", Has(o, "races") /\ o.races = 0>> >>
Checks(e) == CASE e.k = "draw" -> DrawChecks(e) [] e.k = "conc" -> ConcChecks(e)
Failed(e) == LET cs == Checks(e) IN {i \in DOMAIN cs : ~cs[i][2]}
\* information only: what fetch-and-add by one additionally yields
Info(e) == IF e.k = "draw" /\ Has(e.obs, "ids") THEN
             LET ss == e.obs.ids  S == IdSet(ss) IN
             [increasing |-> \A g \in 1..Len(ss) : \A i \in 1..(Len(ss[g]) - 1) : ss[g][i] < ss[g][i + 1],
              gapfree |-> \A x \in S : x = e.obs.min \/ (x - 1) \in S]
           ELSE [increasing |-> TRUE, gapfree |-> TRUE]
Init == l \in 1..Len(Trace) /\ done = FALSE
Judge == /\ ~done /\ done' = TRUE /\ UNCHANGED l
         /\ LET e == Trace[l]  bad == Failed(e) IN
              IF bad = {} THEN PrintT(ToJson([note |-> l, id |-> e.id, info |-> Info(e)]))
              ELSE LET i == CHOOSE j \in bad : \A k \in bad : j <= k IN
                   PrintT(ToJson([reject |-> l, id |-> e.id, pred |-> Checks(e)[i][1],
                                  scenario |-> [x \in DOMAIN e \ {"obs"} |-> e[x]]]))
Next == Judge
Spec == Init /\ [][Next]_vars
=============================================================================
