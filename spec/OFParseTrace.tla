---------------------------- MODULE OFParseTrace ----------------------------
(* Judge for C04 (parsing specification-made frames) and C12 (ownership).    *)
(* A line carries the tree, the frame the specification's encoder wrote for  *)
(* it, the Go type expected from the dispatcher, and what the real Parse     *)
(* returned: type, projection ("tree"), re-encoding and size -- once right   *)
(* after parsing and once after each overwrite of the input buffer.          *)
EXTENDS OFWire
CONSTANTS TraceFile, Prop, Safe
Trace == ndJsonDeserialize(TraceFile)
VARIABLES l, done
vars == <<l, done>>
Enabled(tag) == Prop = "all" \/ tag = "all" \/ tag = Prop
Ck(tag, name, cond) == <<tag, name, IF Enabled(tag) THEN cond ELSE TRUE>>
Parsed(e) == Has(e.obs, "first") /\ Has(e.obs.first, "tree")
\* kinds whose Go representation cannot hold the OpenFlow 1.3 record (known findings, by kind)
Of10Layout(e) == e.kind = "MultipartReply" /\ e.tree.Type \in {<<0, 3>>, <<0, 4>>, <<0, 5>>} /\ e.tree.Body # <<>>
Checks(e) ==
  LET o == e.obs IN
  << Ck("all", "the parser does not panic on a conformant frame", ~Has(o, "panic")),
     Ck("C04", "a conformant frame is accepted", Has(o, "err") => (~o.err /\ ~Has(o, "nil"))),
     Ck("C04", "the parsed message has the kind of the frame", Has(o, "type") => o.type = e.gotype),
     Ck("C04", "observing the parsed message does not panic", Has(o, "first") => ~Has(o.first, "panic")),
     Ck("C04", "every field of the parsed message equals what the independent encoder wrote (nothing dropped, shifted or read from a neighbour)",
        (Parsed(e) /\ ~Safe) => Enc(o.first.tree) = e.frame),
     Ck("C04", "the parsed message reports the size of the frame", Parsed(e) => o.first.len = Len(e.frame)),
     Ck("C05", "re-encoding the parsed message reproduces the frame", (Parsed(e) /\ ~Has(e, "noreenc")) => o.first.reenc = e.frame),
     Ck("C04", "messages parsed afterwards do not change this one (it still exposes what was on the wire)", (Has(o, "final") /\ Has(o, "first")) => o.final = o.first),
     Ck("C12", "messages parsed afterwards do not change this one (parsed messages share no memory with each other)", (Has(o, "final") /\ Has(o, "first")) => o.final = o.first),
     Ck("C12", "overwriting the input buffer changes neither the parsed message nor its re-encoding",
        (Has(o, "after") /\ Has(o, "first") /\ Has(o, "err") /\ ~o.err) => \A i \in DOMAIN o.after : o.after[i] = o.first) >>
Failed(e) == LET cs == Checks(e) IN {i \in DOMAIN cs : ~cs[i][3]}
Init == l \in 1..Len(Trace) /\ done = FALSE
Judge == /\ ~done /\ done' = TRUE /\ UNCHANGED l
         /\ LET e == Trace[l]  bad == Failed(e) IN
              IF bad = {} THEN TRUE
              ELSE LET i == CHOOSE j \in bad : \A k \in bad : j <= k IN
                   IF Of10Layout(e)      \* these frames are outside what the Go types can hold: a finding of C04 only
                   THEN (IF Checks(e)[i][1] = "C04" THEN PrintT(ToJson([kf |-> "KF-C04-of10-stats-layout", l |-> l, id |-> e.id, kind |-> e.tree.Type])) ELSE TRUE)
                   ELSE PrintT(ToJson([reject |-> l, id |-> e.id, fam |-> e.fam, kind |-> e.kind, prop |-> Checks(e)[i][1], pred |-> Checks(e)[i][2],
                                       detail |-> IF Parsed(e) /\ i = 5 /\ ~Safe THEN [expected |-> e.frame, observed |-> Enc(e.obs.first.tree)] ELSE [none |-> TRUE]]))
Next == Judge
Spec == Init /\ [][Next]_vars
=============================================================================
