------------------------------ MODULE OFSwitch ------------------------------
(* Messages a conforming OpenFlow 1.3 switch sends, as abstract trees (the    *)
(* "independent encoder" of C04 is Enc of OFWire.tla applied to them).  Trees *)
(* name fields as the Go API does, so that the projection of what the parser  *)
(* returns can be read by the same encoder.                                   *)
EXTENDS OFBuilder
VARIABLE c
P == INSTANCE PktGen WITH Family <- "none", Stride <- 1, Phase <- 0
H(tag) == [Xid |-> Xid(tag)]
Fields(ks, tag) == [i \in DOMAIN ks |-> MF("f", ks[i][1], tag + i, ks[i][2]).tree]
MatchOf(ks, tag) == [T |-> "Match", Fields |-> Fields(ks, tag)]
PortTree(tag) == [T |-> "PhyPort", PortNo |-> V(tag, 4), HWAddr |-> V(tag + 1, 6), Name |-> V(tag + 2, 16), Config |-> V(tag + 3, 4), State |-> V(tag + 4, 4),
                  Curr |-> V(tag + 5, 4), Advertised |-> V(tag + 6, 4), Supported |-> V(tag + 7, 4), Peer |-> V(tag + 8, 4),
                  CurrSpeed |-> V(tag + 9, 4), MaxSpeed |-> V(tag + 10, 4)]
\* packets carried by packet-in
Packet(kind, tag) ==
  CASE kind = "ip4udp" -> P!EthEl("e", 0, 0, 0, <<8, 0>>, P!Ip4El("p", 4, 5, 3, 1, 2, 0, 17, tag, 12), tag).tree
    [] kind = "ip4icmp-tagged" -> P!EthEl("e", 3, 0, 100, <<8, 0>>, P!Ip4El("p", 4, 6, 0, 0, 0, 0, 1, tag, 8), tag).tree
    [] kind = "ip4tcp" -> P!EthEl("e", 0, 0, 0, <<8, 0>>, P!Ip4El("p", 4, 5, 0, 0, 0, 0, 6, tag, 24), tag).tree
    [] kind = "arp" -> P!EthEl("e", 0, 0, 0, <<8, 6>>, P!ArpEl("p", tag, 1), tag).tree
    [] kind = "ip6icmp" -> P!EthEl("e", 0, 0, 0, <<134, 221>>, P!Ip6El("p", 6, 8, 4660, <<>>, 58, tag, 16, 0, 0, FALSE), tag).tree
    [] kind = "ip6ext" -> P!EthEl("e", 5, 1, 7, <<134, 221>>, P!Ip6El("p", 6, 8, 4660, <<"hbh", "rt", "fr">>, 17, tag, 9, 2, 77, TRUE), tag).tree
    [] kind = "ip4igmp" ->        \* IP protocol 2 is not demultiplexed: an IGMPv3 report stays opaque payload bytes
         P!EthEl("e", 0, 0, 0, <<8, 0>>, P!Ip4Raw("p", 2, EncPkt(P!Igmp3ReportEl("g", <<P!GroupRecEl("r1", 1, 2, 34)>>, 36).tree), tag), tag).tree
    [] kind = "ip4frag" ->        \* a non-first fragment (fragment offset 185, more fragments): the payload is still decoded by protocol
         P!EthEl("e", 0, 0, 0, <<8, 0>>, P!Ip4El("p", 4, 5, 0, 0, 1, 185, 17, tag, 16), tag).tree
    [] kind = "ip6hbhbig" ->      \* a 328-byte hop-by-hop header (41 options): room for an option length byte to be corrupted to any value
         P!EthEl("e", 0, 0, 0, <<134, 221>>, P!Ip6With("p", <<P!HbhBig("h", 17, 40, tag)>>, <<>>, 0, 17, tag, 5), tag).tree
    [] kind = "ip6hbh" -> P!EthEl("e", 0, 0, 0, <<134, 221>>, P!Ip6El("p", 6, 0, 1, <<"hbh">>, 58, tag, 4, 3, 0, FALSE), tag).tree
    [] kind = "lldp" -> P!EthEl("e", 0, 0, 0, <<136, 204>>, P!BufEl("p", V(tag, 40)), tag).tree
PacketKinds == {"ip4udp", "ip4icmp-tagged", "ip4tcp", "arp", "ip6icmp", "ip6ext", "ip6hbh", "ip6hbhbig", "ip4frag", "ip4igmp", "lldp"}
FlowStatsTree(ks, is, tag) ==
  [T |-> "FlowStats", TableId |-> V(tag, 1), DurationSec |-> V(tag + 1, 4), DurationNSec |-> V(tag + 2, 4), Priority |-> V(tag + 3, 2),
   IdleTimeout |-> V(tag + 4, 2), HardTimeout |-> V(tag + 5, 2), Flags |-> V(tag + 6, 2), Cookie |-> V(tag + 7, 8), PacketCount |-> V(tag + 8, 8),
   ByteCount |-> V(tag + 9, 8), Match |-> MatchOf(ks, tag), Instructions |-> is]
InstrTrees(k, tag) == CASE k = 0 -> <<>>
                        [] k = 1 -> <<Goto("g", tag).tree>>
                        [] k = 2 -> <<InstrActs("i", "apply", << <<LeafAct("a1", "output", tag), FALSE>>, <<LeafAct("a2", "setfield", tag), FALSE>> >>).tree, Goto("g", tag).tree>>
                        [] k = 3 -> <<InstrActs("i", "write", << <<LeafAct("a1", "group", tag), FALSE>> >>).tree, WriteMeta("w", tag).tree,
                                      InstrActs("j", "apply", << <<LeafAct("a2", "regload", tag), FALSE>>, <<LeafAct("a3", "resubtable", tag), FALSE>>, <<LeafAct("a4", "conj", tag), FALSE>> >>).tree>>
StatsBody(kind, n, tag) ==
  CASE kind = "desc" -> << [T |-> "DescStats", MfrDesc |-> V(tag, 256), HWDesc |-> V(tag + 1, 256), SWDesc |-> V(tag + 2, 256), SerialNum |-> V(tag + 3, 32), DPDesc |-> V(tag + 4, 256)] >>
    [] kind = "flow" -> [i \in 1..n |-> FlowStatsTree(<< <<DecMF(tag + i), FALSE>>, <<DecMF(tag + 3 * i), FALSE>> >>, InstrTrees(i % 4, tag + i), tag + 20 * i)]
    [] kind = "aggregate" -> << [T |-> "AggregateStats", PacketCount |-> V(tag, 8), ByteCount |-> V(tag + 1, 8), FlowCount |-> V(tag + 2, 4)] >>
    [] kind = "table" -> [i \in 1..n |-> [T |-> "TableStats", TableId |-> <<i>>, ActiveCount |-> V(tag + i, 4), LookupCount |-> V(tag + i + 1, 8), MatchedCount |-> V(tag + i + 2, 8)]]
    [] kind = "port" -> [i \in 1..n |-> [T |-> "PortStats", PortNo |-> V(tag + i, 4), RxPackets |-> V(tag + i + 1, 8), TxPackets |-> V(tag + i + 2, 8), RxBytes |-> V(tag + i + 3, 8),
                                         TxBytes |-> V(tag + i + 4, 8), RxDropped |-> V(tag + i + 5, 8), TxDropped |-> V(tag + i + 6, 8), RxErrors |-> V(tag + i + 7, 8),
                                         TxErrors |-> V(tag + i + 8, 8), RxFrameErr |-> V(tag + i + 9, 8), RxOverErr |-> V(tag + i + 10, 8), RxCRCErr |-> V(tag + i + 11, 8),
                                         Collisions |-> V(tag + i + 12, 8), DurationSec |-> V(tag + i + 13, 4), DurationNSec |-> V(tag + i + 14, 4)]]
    [] kind = "queue" -> [i \in 1..n |-> [T |-> "QueueStats", PortNo |-> V(tag + i, 4), QueueId |-> V(tag + i + 1, 4), TxBytes |-> V(tag + i + 2, 8), TxPackets |-> V(tag + i + 3, 8),
                                          TxErrors |-> V(tag + i + 4, 8), DurationSec |-> V(tag + i + 5, 4), DurationNSec |-> V(tag + i + 6, 4)]]
    [] kind = "portdesc" -> [i \in 1..n |-> PortTree(tag + 12 * i)]
MpType(kind) == CASE kind = "desc" -> 0 [] kind = "flow" -> 1 [] kind = "aggregate" -> 2 [] kind = "table" -> 3 [] kind = "port" -> 4 [] kind = "queue" -> 5 [] kind = "portdesc" -> 13
SwKinds == {"hello1", "hello2", "error0", "error1", "error64", "experror", "echoreq", "echorep", "barrierrep", "features", "getconfig",
            "flowremoved", "portstatus", "tlvreply0", "tlvreply2", "bundlectrl"}
SwTree(kind, tag) ==
  CASE kind = "hello1" -> [T |-> "Hello", Header |-> H(tag), Elements |-> << [T |-> "HelloElemVersionBitmap", Bitmaps |-> << <<0, 0, 0, 16>> >>] >>]
    [] kind = "hello2" -> [T |-> "Hello", Header |-> H(tag), Elements |-> << [T |-> "HelloElemVersionBitmap", Bitmaps |-> << <<0, 0, 0, 18>> >>],
                                                                           [T |-> "HelloElemVersionBitmap", Bitmaps |-> << V(tag, 4) >>] >>]
    [] kind = "error0" -> [T |-> "ErrorMsg", Header |-> H(tag), Type |-> <<0, 1 + (tag % 13)>>, Code |-> V(tag, 2), Data |-> [T |-> "Buffer", B |-> <<>>]]
    [] kind = "error1" -> [T |-> "ErrorMsg", Header |-> H(tag), Type |-> <<0, 5>>, Code |-> V(tag, 2), Data |-> [T |-> "Buffer", B |-> V(tag, 1)]]
    [] kind = "error64" -> [T |-> "ErrorMsg", Header |-> H(tag), Type |-> <<0, 2>>, Code |-> V(tag, 2), Data |-> [T |-> "Buffer", B |-> V(tag + 1, 64)]]
    [] kind = "experror" -> [T |-> "VendorError", Header |-> H(tag), Type |-> <<255, 255>>, Code |-> V(tag, 2), ExperimenterID |-> <<79, 78, 70, 0>>,
                             Data |-> [T |-> "Buffer", B |-> V(tag + 1, 16)]]
    [] kind = "echoreq" -> [T |-> "Header", Type |-> <<2>>, Xid |-> Xid(tag)]
    [] kind = "echorep" -> [T |-> "Header", Type |-> <<3>>, Xid |-> Xid(tag)]
    [] kind = "barrierrep" -> [T |-> "Header", Type |-> <<21>>, Xid |-> Xid(tag)]
    [] kind = "features" -> [T |-> "SwitchFeatures", Header |-> H(tag), DPID |-> V(tag, 8), Buffers |-> V(tag + 1, 4), NumTables |-> V(tag + 2, 1),
                             AuxilaryId |-> V(tag + 3, 1), Capabilities |-> V(tag + 4, 4), Actions |-> V(tag + 5, 4)]
    [] kind = "getconfig" -> [T |-> "SwitchConfig", Header |-> [Type |-> <<8>>, Xid |-> Xid(tag)], Flags |-> V(tag, 2), MissSendLen |-> V(tag + 1, 2)]
    [] kind = "flowremoved" -> [T |-> "FlowRemoved", Header |-> H(tag), Cookie |-> V(tag, 8), Priority |-> V(tag + 1, 2), Reason |-> V(tag + 2, 1), TableId |-> V(tag + 3, 1),
                                DurationSec |-> V(tag + 4, 4), DurationNSec |-> V(tag + 5, 4), IdleTimeout |-> V(tag + 6, 2), HardTimeout |-> V(tag + 7, 2),
                                PacketCount |-> V(tag + 8, 8), ByteCount |-> V(tag + 9, 8),
                                Match |-> MatchOf(<< <<1, FALSE>>, <<4, FALSE>>, <<8, TRUE>> >>, tag)]
    [] kind = "portstatus" -> [T |-> "PortStatus", Header |-> H(tag), Reason |-> V(tag, 1), Desc |-> PortTree(tag + 1)]
    [] kind = "tlvreply0" -> [T |-> "VendorHeader", Header |-> H(tag), Vendor |-> NxVendor, ExperimenterType |-> <<0, 0, 0, 26>>,
                              VendorData |-> [T |-> "TLVTableReply", MaxSpace |-> V(tag, 4), MaxFields |-> V(tag + 1, 2), TlvMaps |-> <<>>]]
    [] kind = "tlvreply2" -> [T |-> "VendorHeader", Header |-> H(tag), Vendor |-> NxVendor, ExperimenterType |-> <<0, 0, 0, 26>>,
                              VendorData |-> [T |-> "TLVTableReply", MaxSpace |-> V(tag, 4), MaxFields |-> V(tag + 1, 2),
                                              TlvMaps |-> <<TlvMapEl("t1", tag + 2).tree, TlvMapEl("t2", tag + 9).tree>>]]
    [] kind = "bundlectrl" -> BundleCtrlEl("b", tag).tree
PacketInTree(pkind, ks, tag) ==
  [T |-> "PacketIn", Header |-> H(tag), BufferId |-> V(tag, 4), TotalLen |-> V(tag + 1, 2), Reason |-> <<tag % 3>>, TableId |-> V(tag + 2, 1), Cookie |-> V(tag + 3, 8),
   Match |-> MatchOf(ks, tag), Data |-> Packet(pkind, tag)]
MpReplyTree(kind, n, tag) == [T |-> "MultipartReply", Header |-> H(tag), Type |-> <<0, MpType(kind)>>, Flags |-> <<0, tag % 2>>, Body |-> StatsBody(kind, n, tag)]

\* ---------------------------------------------------------------- the same kinds built through the Go API (elements with ops)
\* these encoders do not stamp the header length: the caller sets it (LAYOUTS.md section 8)
HdrOps(n, type, xid, len) == <<Set(n, "Header.Type", <<type>>), Set(n, "Header.Xid", xid), Set(n, "Header.Length", BE16(len))>>
SetF(n, t, fields) == [i \in DOMAIN fields |-> Set(n, fields[i], t[fields[i]])]
PortOps(n, prefix, t) == [i \in 1..11 |-> Set(n, prefix \o (<<"PortNo", "HWAddr", "Name", "Config", "State", "Curr", "Advertised", "Supported", "Peer", "CurrSpeed", "MaxSpeed">>)[i],
                                              t[(<<"PortNo", "HWAddr", "Name", "Config", "State", "Curr", "Advertised", "Supported", "Peer", "CurrSpeed", "MaxSpeed">>)[i]])]
FieldEls(ks, tag) == [i \in DOMAIN ks |-> MF("f" \o ToString(i), ks[i][1], tag + i, ks[i][2])]
BuiltKinds == {"error0", "error64", "experror", "features", "getconfig", "flowremoved", "portstatus", "packetin", "mpdesc", "mpflow", "mpaggr", "tlvreply2", "phyport"}
Built(kind, tag) ==
  CASE kind \in {"error0", "error64"} ->
         LET t == SwTree(kind, tag) IN
         El("m", t, <<New("m", "NewErrorMsg", <<>>), New("h", "NewOfp13Header", <<>>), Set("m", "Header", Ref("h"))>> \o HdrOps("m", 1, t.Header.Xid, Len(Enc(t)))
                     \o <<Set("m", "Type", t.Type), Set("m", "Code", t.Code), Set("m", "Data", t.Data.B)>>)
    [] kind = "experror" ->
         LET t == SwTree(kind, tag) IN
         El("m", t, <<New("m", "NewBundleError", <<>>)>> \o HdrOps("m", 1, t.Header.Xid, Len(Enc(t))) \o <<Set("m", "Code", t.Code), Set("m", "Data", t.Data.B)>>)
    [] kind = "features" ->
         LET t == SwTree(kind, tag) IN
         El("m", t, <<New("m", "NewFeaturesReply", <<>>), Set("m", "Xid", t.Header.Xid)>> \o SetF("m", t, <<"DPID", "Buffers", "NumTables", "AuxilaryId", "Capabilities", "Actions">>))
    [] kind = "getconfig" ->
         LET t == SwTree(kind, tag) IN
         El("m", t, <<NewT("m", "SwitchConfig"), New("h", "NewOfp13Header", <<>>), Set("m", "Header", Ref("h")), Set("m", "Header.Type", <<8>>), Set("m", "Header.Xid", t.Header.Xid),
                      Set("m", "Flags", t.Flags), Set("m", "MissSendLen", t.MissSendLen)>>)
    [] kind = "flowremoved" ->
         LET ks == << <<1, FALSE>>, <<4, FALSE>>, <<8, TRUE>> >>  fs == FieldEls(ks, tag)
             t == [SwTree(kind, tag) EXCEPT !.Match = Match(fs)] IN
         El("m", t, OpsOf(fs) \o <<New("m", "NewFlowRemoved", <<>>)>> \o HdrOps("m", 11, t.Header.Xid, Len(Enc(t)))
                     \o SetF("m", t, <<"Cookie", "Priority", "Reason", "TableId", "DurationSec", "DurationNSec", "IdleTimeout", "HardTimeout", "PacketCount", "ByteCount">>)
                     \o [i \in DOMAIN fs |-> CallP("m", "Match", "AddField", <<Ref(fs[i].n)>>)])
    [] kind = "portstatus" ->
         LET t == SwTree(kind, tag) IN
         El("m", t, <<New("m", "NewPortStatus", <<>>), Set("m", "Header.Type", <<12>>), Set("m", "Header.Xid", t.Header.Xid), Set("m", "Reason", t.Reason)>> \o PortOps("m", "Desc.", t.Desc))
    [] kind = "phyport" ->
         LET t == PortTree(tag) IN El("m", t, <<New("m", "NewPhyPort", <<>>)>> \o PortOps("m", "", t))
    [] kind = "packetin" ->
         LET pk == P!EthEl("e", 2, 0, 9, <<8, 0>>, P!Ip4El("p", 4, 5, 3, 1, 2, 0, 17, tag, 12), tag)
             fs == FieldEls(<< <<1, FALSE>>, <<16, TRUE>> >>, tag)
             t == [T |-> "PacketIn", Header |-> H(tag), BufferId |-> V(tag, 4), TotalLen |-> V(tag + 1, 2), Reason |-> <<1>>, TableId |-> V(tag + 2, 1), Cookie |-> V(tag + 3, 8),
                   Match |-> Match(fs), Data |-> pk.tree] IN
         El("m", t, pk.ops \o OpsOf(fs) \o <<New("m", "NewPacketIn", <<>>)>> \o HdrOps("m", 10, t.Header.Xid, Len(Enc(t)))
                     \o SetF("m", t, <<"BufferId", "TotalLen", "Reason", "TableId", "Cookie">>)
                     \o [i \in DOMAIN fs |-> CallP("m", "Match", "AddField", <<Ref(fs[i].n)>>)] \o <<Set("m", "Data", Ref(pk.n))>>)
    [] kind \in {"mpdesc", "mpflow", "mpaggr"} ->
         LET recs == CASE kind = "mpdesc" ->
                            LET d == StatsBody("desc", 1, tag)[1] IN
                            << El("r1", d, <<New("r1", "NewDescStats", <<>>)>> \o SetF("r1", d, <<"MfrDesc", "HWDesc", "SWDesc", "SerialNum", "DPDesc">>)) >>
                       [] kind = "mpaggr" ->
                            LET a == StatsBody("aggregate", 1, tag)[1] IN
                            << El("r1", a, <<New("r1", "NewAggregateStats", <<>>)>> \o SetF("r1", a, <<"PacketCount", "ByteCount", "FlowCount">>)) >>
                       [] kind = "mpflow" ->
                            [j \in 1..2 |->
                               LET fs == FieldEls(<< <<DecMF(tag + j), FALSE>> >>, tag + 40 * j)
                                   is == IF j = 1 THEN <<Goto("g" \o ToString(j), tag)>> ELSE <<InstrActs("i" \o ToString(j), "apply", << <<LeafAct("a" \o ToString(j), "output", tag), FALSE>> >>), Goto("g" \o ToString(j), tag + 1)>>
                                   r == "r" \o ToString(j)
                                   fsn == [i \in DOMAIN fs |-> [fs[i] EXCEPT !.n = r \o fs[i].n, !.ops = <<[fs[i].ops[1] EXCEPT !.as = r \o fs[i].n]>>]]
                                   t0 == [FlowStatsTree(<<>>, TreesOf(is), tag + 20 * j) EXCEPT !.Match = Match(fsn)]
                               IN El(r, t0, OpsOf(fsn) \o OpsOf(is) \o <<New(r, "NewFlowStats", <<>>), Set(r, "Length", BE16(Len(EncStats(t0))))>>
                                          \o SetF(r, t0, <<"TableId", "DurationSec", "DurationNSec", "Priority", "IdleTimeout", "HardTimeout", "Flags", "Cookie", "PacketCount", "ByteCount">>)
                                          \o [i \in DOMAIN fsn |-> CallP(r, "Match", "AddField", <<Ref(fsn[i].n)>>)]
                                          \o <<Set(r, "Instructions", RefsOf(is))>>)]
             mt == CASE kind = "mpdesc" -> 0 [] kind = "mpflow" -> 1 [] kind = "mpaggr" -> 2
             t == [T |-> "MultipartReply", Header |-> H(tag), Type |-> <<0, mt>>, Flags |-> <<0, 1>>, Body |-> TreesOf(recs)] IN
         El("m", t, OpsOf(recs) \o <<NewT("m", "MultipartReply"), New("h", "NewOfp13Header", <<>>), Set("m", "Header", Ref("h")), Set("m", "Header.Type", <<19>>),
                                     Set("m", "Header.Xid", t.Header.Xid), Set("m", "Type", t.Type), Set("m", "Flags", t.Flags), Set("m", "Body", RefsOf(recs))>>)
    [] kind = "tlvreply2" ->
         LET t == SwTree(kind, tag)  m1 == TlvMapEl("t1", tag + 2)  m2 == TlvMapEl("t2", tag + 9) IN
         El("m", t, m1.ops \o m2.ops \o <<NewT("d", "TLVTableReply"), Set("d", "MaxSpace", t.VendorData.MaxSpace), Set("d", "MaxFields", t.VendorData.MaxFields),
                                         Set("d", "TlvMaps", <<Ref("t1"), Ref("t2")>>), New("m", "NewNXTVendorHeader", <<<<0, 0, 0, 26>>>>), Set("m", "Header.Xid", t.Header.Xid),
                                         Set("m", "VendorData", Ref("d"))>>)
\* kinds whose Go representation follows the OpenFlow 1.0 record layouts (known finding of C04): no tree is stated for them, but the
\* library's own encoder / decoder pair is still under the oracle-free predicates (sizes, repeatability, round trip)
LibKinds == {"libtable", "libport", "libqueue", "libportreq", "libqueuereq"}
LibBuilt(kind, tag) ==
  LET hdr(n, type) == <<New(Nm(n, 9), "NewOfp13Header", <<>>), Set(n, "Header", Ref(Nm(n, 9))), Set(n, "Header.Type", <<type>>), Set(n, "Header.Xid", Xid(tag))>>
      port(r, i) == <<New(r, "NewPortStats", <<>>), Set(r, "PortNo", V(tag + i, 2))>>
                    \o [k \in 1..12 |-> Set(r, (<<"RxPackets", "TxPackets", "RxBytes", "TxBytes", "RxDropped", "TxDropped", "RxErrors", "TxErrors", "RxFrameErr", "RxOverErr", "RxCRCErr", "Collisions">>)[k], V(tag + i + k, 8))]
      table(r, i) == <<New(r, "NewTableStats", <<>>), Set(r, "TableId", <<i>>), Set(r, "Name", V(tag + i, 32)), Set(r, "Wildcards", V(tag + i + 1, 4)), Set(r, "MaxEntries", V(tag + i + 2, 4)),
                       Set(r, "ActiveCount", V(tag + i + 3, 4)), Set(r, "LookupCount", V(tag + i + 4, 8)), Set(r, "MatchedCount", V(tag + i + 5, 8))>>
      queue(r, i) == <<NewT(r, "QueueStats"), Set(r, "PortNo", V(tag + i, 2)), Set(r, "QueueId", V(tag + i + 1, 4)), Set(r, "TxBytes", V(tag + i + 2, 8)), Set(r, "TxPackets", V(tag + i + 3, 8)),
                       Set(r, "TxErrors", V(tag + i + 4, 8))>>
      reply(mt, recops) == recops[1] \o recops[2] \o <<NewT("m", "MultipartReply")>> \o hdr("m", 19) \o <<Set("m", "Type", <<0, mt>>), Set("m", "Flags", <<0, 0>>), Set("m", "Body", <<Ref("r1"), Ref("r2")>>)>>
      request(mt, bops) == bops \o <<NewT("m", "MultipartRequest")>> \o hdr("m", 18) \o <<Set("m", "Type", <<0, mt>>), Set("m", "Flags", <<0, 0>>), Set("m", "Body", Ref("b"))>>
  IN CASE kind = "libport" -> El("m", [T |-> "MultipartReply"], reply(4, <<port("r1", 1), port("r2", 2)>>))
       [] kind = "libtable" -> El("m", [T |-> "MultipartReply"], reply(3, <<table("r1", 1), table("r2", 2)>>))
       [] kind = "libqueue" -> El("m", [T |-> "MultipartReply"], reply(5, <<queue("r1", 1), queue("r2", 2)>>))
       [] kind = "libportreq" -> El("m", [T |-> "MultipartRequest"], request(4, <<New("b", "NewPortStatsRequest", <<>>), Set("b", "PortNo", V(tag, 2))>>))
       [] kind = "libqueuereq" -> El("m", [T |-> "MultipartRequest"], request(5, <<New("b", "NewQueueStatsRequest", <<>>), Set("b", "PortNo", V(tag, 2)), Set("b", "QueueId", V(tag + 1, 4))>>))
GoType(t) == CASE t.T = "Header" -> "*common.Header" [] t.T = "Hello" -> "*common.Hello" [] OTHER -> "*openflow13." \o t.T
=============================================================================
