------------------------------ MODULE StreamSim ------------------------------
(* Coarse schedules for the rig, generated from Stream.tla in simulation mode *)
(* with the real constants (pool 50, 25 parsers).  External actions append a  *)
(* command to a history variable; internal channel operations do not.  A      *)
(* Finish step prints the schedule at quiescence or after the failure /       *)
(* shutdown protocol has run.  Commands: <<"F", n>> feed n bytes, <<"P", j>>  *)
(* let the j-th oldest parse in progress finish, <<"R">> consumer receives,   *)
(* <<"X">> the connection fails, <<"S">> application-initiated shutdown.      *)
EXTENDS Stream, Json
CONSTANTS NF, PauseEvery
VARIABLES sched, fin, held, paused
SizeOf(i) == CASE i % 5 = 0 -> 8 [] i % 5 = 1 -> 12 [] i % 5 = 2 -> 13 [] i % 5 = 3 -> 16 [] OTHER -> 24
SimFrames == [i \in 1..NF |-> <<4, 1, 0, SizeOf(i)>> \o <<0, 0, 0, i % 256>> \o [j \in 1..(SizeOf(i) - 8) |-> i % 256]]
SimFail == {k \in 0..(NF * 14) : k % 7 = 3}
NoFailSim == {}
Ev(e) == sched' = Append(sched, e)
IndexOf(s, x) == CHOOSE i \in 1..Len(s) : s[i] = x
Remove(s, i) == SubSeq(s, 1, i - 1) \o SubSeq(s, i + 1, Len(s))
SInit == Init /\ sched = <<>> /\ fin = FALSE /\ held = <<>> /\ paused = FALSE
SNext ==
  /\ ~fin
  /\ \/ /\ RReadData /\ Ev(<<"F", pos' - pos>>) /\ UNCHANGED <<fin, held, paused>>
     \/ /\ RReadFail /\ Ev(<<"X">>) /\ UNCHANGED <<fin, held, paused>>
     \/ /\ \E p \in Parsers : /\ PTake(p) /\ held' = Append(held, p) /\ UNCHANGED <<sched, fin, paused>>
     \/ /\ \E p \in Parsers : /\ PParse(p) /\ Ev(<<"P", IndexOf(held, p) - 1>>) /\ held' = Remove(held, IndexOf(held, p))
                               /\ UNCHANGED <<fin, paused>>
     \/ /\ ~paused /\ CRecv /\ Ev(<<"R">>) /\ UNCHANGED <<fin, held>>
           /\ paused' = (PauseEvery > 0 /\ Len(delivered') % PauseEvery = 0)
     \/ /\ paused /\ (empty = <<>> \/ rpc \in {"done", "err", "shut"} \/ pos = Len(Wire))
           /\ paused' = FALSE /\ UNCHANGED <<vars, sched, fin, held>>
     \/ /\ AppShutdown /\ Ev(<<"S">>) /\ UNCHANGED <<fin, held, paused>>
     \/ /\ (RTake0 \/ RReadClosed \/ RProc \/ RPut \/ RTake \/ RErr \/ RShut \/ Shutdown \/ CErr
            \/ \E p \in Parsers : PStop(p) \/ PSend(p) \/ PReset(p) \/ PRet(p))
        /\ UNCHANGED <<sched, fin, held, paused>>
     \/ /\ (Quiescent \/ (rpc = "done" /\ inbound = <<>> /\ full = <<>>
                          /\ \A p \in Parsers : ppc[p] \in {"idle", "stopped"}))
        /\ fin' = TRUE /\ UNCHANGED <<vars, sched, held, paused>>
        /\ PrintT(ToJson([k |-> "in", sched |-> sched, frames |-> [i \in 1..NF |-> <<(IF SizeOf(i) = 8 THEN "echo" ELSE "error"), SizeOf(i)>>],
                          delivered |-> Len(delivered), failed |-> (errPuts > 0)]))
SSpec == SInit /\ [][SNext]_<<vars, sched, fin, held, paused>>
\* cheap invariants only (the O(n^2) ones live in the exhaustive configurations)
SimInv == ErrorAtMostOnce /\ Len(delivered) <= NF
=============================================================================
