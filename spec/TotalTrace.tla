------------------------------ MODULE TotalTrace ------------------------------
(* Judge for C07 / C08.  A line is one base frame with the number of mutants   *)
(* run (nmuts, incl. the unmutated frame) and what the real decoder did:       *)
(* counts of the two legal outcomes (message, error) and the list of every     *)
(* other outcome (panic with the innermost library frame, hang = CPU budget    *)
(* exceeded twice, heap = memory cap exceeded).  The acceptor: every mutant    *)
(* ran and gave a message or an error, within time and memory linear in the    *)
(* input length.                                                               *)
EXTENDS Integers, Sequences, FiniteSets, TLC, Json
CONSTANT TraceFile
Trace == ndJsonDeserialize(TraceFile)
VARIABLES l, done
vars == <<l, done>>
Has(r, f) == f \in DOMAIN r
AllocBound(e) == 256 * Len(e.frame) + 65536          \* bytes allocated per mutant, averaged over the mutants of one base frame
Checks(e) ==
  LET o == e.obs IN
  << <<"every mutant was executed", Has(o, "ran") /\ o.ran = e.nmuts>>,
     <<"every input gives a message or an error: no panic, no hang, no memory exhaustion", o.failures = <<>> /\ o.msg + o.err = e.nmuts>>,
     <<"memory proportional to the input", o.allocPerMutant <= AllocBound(e)>> >>
Failed(e) == LET cs == Checks(e) IN {i \in DOMAIN cs : ~cs[i][2]}
Init == l \in 1..Len(Trace) /\ done = FALSE
Judge == /\ ~done /\ done' = TRUE /\ UNCHANGED l
         /\ LET e == Trace[l]  bad == Failed(e) IN
              IF bad = {} THEN TRUE
              ELSE LET i == CHOOSE j \in bad : \A k \in bad : j <= k IN
                   PrintT(ToJson([reject |-> l, id |-> e.id, entry |-> e.entry, kind |-> e.kind, pred |-> Checks(e)[i][1],
                                  failures |-> e.obs.failures, msg |-> e.obs.msg, err |-> e.obs.err, nmuts |-> e.nmuts, alloc |-> e.obs.allocPerMutant]))
Next == Judge
Spec == Init /\ [][Next]_vars
=============================================================================
