------------------------------- MODULE Stream -------------------------------
(* util/stream.go, inbound side, at the grain of one action per channel    *)
(* operation: R* = MessageStream.inbound (RProc is the body of the per-byte *)
(* loop, verbatim arithmetic), P* = MessageStream.parse, S* =               *)
(* MessageStream.shutdown, CRecv / CErr / AppShutdown = the application.    *)
(* Alias selects whether a parsed message copies the pool buffer (what the  *)
(* decoders do, C12) or refers to it.  FailAt = stream positions after      *)
(* which Read may return an error.                                          *)
EXTENDS Integers, Sequences, FiniteSets, TLC, Bags
CONSTANTS PoolSize, NParsers, Frames, MaxChunk, Alias, FailAt, UserShutdown
RECURSIVE FlatF(_)
FlatF(fs) == IF fs = <<>> THEN <<>> ELSE Head(fs) \o FlatF(Tail(fs))
Wire == FlatF(Frames)
Parsers == 1..NParsers
Bufs == 1..PoolSize
VARIABLES pos, conn,                       \* connection: bytes handed out so far; "open" | "failed" | "closed"
          rpc, chunk, hdr, msg, hdrBuf, cur, \* reader goroutine
          content, empty, full,            \* pool
          ppc, pbuf, pmsg,                 \* parser goroutines
          inbound, delivered,              \* Inbound channel (cap 1), consumer history
          errorCh, errPuts,                \* Error channel (cap 1), number of puts ever
          shutCh, spc, scount, pshut       \* Shutdown channel (cap 1), shutdown goroutine, parserShutdown chan (cap 1)
rvars == <<rpc, chunk, hdr, msg, hdrBuf, cur>>
pvars == <<ppc, pbuf, pmsg>>
svars == <<shutCh, spc, scount, pshut>>
vars == <<pos, conn, rvars, content, empty, full, pvars, inbound, delivered, errorCh, errPuts, svars>>

Val(m) == IF m.kind = "copy" THEN m.bytes ELSE content[m.buf]

Init == /\ pos = 0 /\ conn = "open"
        /\ rpc = "take0" /\ chunk = <<>> /\ hdr = 0 /\ msg = 0 /\ hdrBuf = <<0,0,0,0>> /\ cur = 0
        /\ content = [b \in Bufs |-> <<>>] /\ empty = [i \in 1..PoolSize |-> i] /\ full = <<>>
        /\ ppc = [p \in Parsers |-> "idle"] /\ pbuf = [p \in Parsers |-> 0] /\ pmsg = [p \in Parsers |-> <<>>]
        /\ inbound = <<>> /\ delivered = <<>> /\ errorCh = <<>> /\ errPuts = 0
        /\ shutCh = <<>> /\ spc = "wait" /\ scount = 0 /\ pshut = <<>>

\* ---------------- reader (MessageStream.inbound) ----------------
RTake0 == /\ rpc = "take0" /\ empty # <<>> /\ cur' = Head(empty) /\ empty' = Tail(empty) /\ rpc' = "read"
          /\ UNCHANGED <<pos, conn, chunk, hdr, msg, hdrBuf, content, full, pvars, inbound, delivered, errorCh, errPuts, svars>>
RReadData == /\ rpc = "read" /\ conn = "open" /\ pos < Len(Wire)
             /\ \E k \in 1..MaxChunk : /\ k <= Len(Wire) - pos
                                       /\ chunk' = SubSeq(Wire, pos+1, pos+k) /\ pos' = pos + k
             /\ rpc' = "proc"
             /\ UNCHANGED <<conn, hdr, msg, hdrBuf, cur, content, empty, full, pvars, inbound, delivered, errorCh, errPuts, svars>>
RReadFail == /\ rpc = "read" /\ conn = "open" /\ pos \in FailAt
             /\ conn' = "failed" /\ rpc' = "err"
             /\ UNCHANGED <<pos, chunk, hdr, msg, hdrBuf, cur, content, empty, full, pvars, inbound, delivered, errorCh, errPuts, svars>>
RReadClosed == /\ rpc = "read" /\ conn = "closed" /\ rpc' = "done"     \* "use of closed network connection": silent return
               /\ UNCHANGED <<pos, conn, chunk, hdr, msg, hdrBuf, cur, content, empty, full, pvars, inbound, delivered, errorCh, errPuts, svars>>
RProc == /\ rpc = "proc"
         /\ IF chunk = <<>> THEN rpc' = "read" /\ UNCHANGED <<chunk, hdr, msg, hdrBuf, content>>
            ELSE LET b == Head(chunk) IN
              /\ chunk' = Tail(chunk)
              /\ IF hdr < 4 THEN
                     /\ hdrBuf' = [hdrBuf EXCEPT ![hdr+1] = b]
                     /\ content' = [content EXCEPT ![cur] = Append(@, b)]
                     /\ hdr' = hdr + 1
                     /\ msg' = IF hdr + 1 >= 4 THEN hdrBuf'[3]*256 + hdrBuf'[4] - 4 ELSE msg
                     /\ rpc' = "proc"
                 ELSE IF msg > 0 THEN
                     /\ content' = [content EXCEPT ![cur] = Append(@, b)]
                     /\ msg' = msg - 1
                     /\ IF msg - 1 = 0 THEN hdr' = 0 /\ rpc' = "put" ELSE hdr' = hdr /\ rpc' = "proc"
                     /\ UNCHANGED hdrBuf
                 ELSE UNCHANGED <<hdr, msg, hdrBuf, content>> /\ rpc' = "proc"
         /\ UNCHANGED <<pos, conn, cur, empty, full, pvars, inbound, delivered, errorCh, errPuts, svars>>
RPut == /\ rpc = "put" /\ Len(full) < PoolSize /\ full' = Append(full, cur) /\ rpc' = "take"
        /\ UNCHANGED <<pos, conn, chunk, hdr, msg, hdrBuf, cur, content, empty, pvars, inbound, delivered, errorCh, errPuts, svars>>
RTake == /\ rpc = "take" /\ empty # <<>> /\ cur' = Head(empty) /\ empty' = Tail(empty) /\ rpc' = "proc"
         /\ UNCHANGED <<pos, conn, chunk, hdr, msg, hdrBuf, content, full, pvars, inbound, delivered, errorCh, errPuts, svars>>
RErr == /\ rpc = "err" /\ Len(errorCh) < 1 /\ errorCh' = Append(errorCh, "err") /\ errPuts' = errPuts + 1 /\ rpc' = "shut"
        /\ UNCHANGED <<pos, conn, chunk, hdr, msg, hdrBuf, cur, content, empty, full, pvars, inbound, delivered, svars>>
RShut == /\ rpc = "shut" /\ Len(shutCh) < 1 /\ shutCh' = Append(shutCh, TRUE) /\ rpc' = "done"
         /\ UNCHANGED <<pos, conn, chunk, hdr, msg, hdrBuf, cur, content, empty, full, pvars, inbound, delivered, errorCh, errPuts, spc, scount, pshut>>
Reader == RTake0 \/ RReadData \/ RReadFail \/ RReadClosed \/ RProc \/ RPut \/ RTake \/ RErr \/ RShut

\* ---------------- parser goroutines (MessageStream.parse) ----------------
PTake(p) == /\ ppc[p] = "idle" /\ full # <<>> /\ pbuf' = [pbuf EXCEPT ![p] = Head(full)] /\ full' = Tail(full)
            /\ ppc' = [ppc EXCEPT ![p] = "parse"]
            /\ UNCHANGED <<pos, conn, rvars, content, empty, pmsg, inbound, delivered, errorCh, errPuts, svars>>
PStop(p) == /\ ppc[p] = "idle" /\ pshut # <<>> /\ pshut' = Tail(pshut) /\ ppc' = [ppc EXCEPT ![p] = "stopped"]
            /\ UNCHANGED <<pos, conn, rvars, content, empty, full, pbuf, pmsg, inbound, delivered, errorCh, errPuts, shutCh, spc, scount>>
PParse(p) == /\ ppc[p] = "parse"
             /\ pmsg' = [pmsg EXCEPT ![p] = IF Alias THEN [kind |-> "alias", buf |-> pbuf[p]] ELSE [kind |-> "copy", bytes |-> content[pbuf[p]]]]
             /\ ppc' = [ppc EXCEPT ![p] = "send"]
             /\ UNCHANGED <<pos, conn, rvars, content, empty, full, pbuf, inbound, delivered, errorCh, errPuts, svars>>
PSend(p) == /\ ppc[p] = "send" /\ Len(inbound) < 1 /\ inbound' = Append(inbound, pmsg[p])
            /\ ppc' = [ppc EXCEPT ![p] = "reset"]
            /\ UNCHANGED <<pos, conn, rvars, content, empty, full, pbuf, pmsg, delivered, errorCh, errPuts, svars>>
PReset(p) == /\ ppc[p] = "reset" /\ content' = [content EXCEPT ![pbuf[p]] = <<>>]
             /\ ppc' = [ppc EXCEPT ![p] = "ret"]
             /\ UNCHANGED <<pos, conn, rvars, empty, full, pbuf, pmsg, inbound, delivered, errorCh, errPuts, svars>>
PRet(p) == /\ ppc[p] = "ret" /\ Len(empty) < PoolSize /\ empty' = Append(empty, pbuf[p])
           /\ ppc' = [ppc EXCEPT ![p] = "idle"] /\ pbuf' = [pbuf EXCEPT ![p] = 0]
           /\ UNCHANGED <<pos, conn, rvars, content, full, pmsg, inbound, delivered, errorCh, errPuts, svars>>
Parser(p) == PTake(p) \/ PStop(p) \/ PParse(p) \/ PSend(p) \/ PReset(p) \/ PRet(p)

\* ---------------- shutdown goroutine (MessageStream.shutdown) ----------------
SWait == /\ spc = "wait" /\ shutCh # <<>> /\ shutCh' = Tail(shutCh) /\ spc' = "close"
         /\ UNCHANGED <<pos, conn, rvars, content, empty, full, pvars, inbound, delivered, errorCh, errPuts, scount, pshut>>
SClose == /\ spc = "close" /\ conn' = "closed" /\ spc' = "stop"
          /\ UNCHANGED <<pos, rvars, content, empty, full, pvars, inbound, delivered, errorCh, errPuts, shutCh, scount, pshut>>
SStop == /\ spc = "stop"
         /\ IF scount = NParsers THEN spc' = "done" /\ UNCHANGED <<scount, pshut>>
            ELSE /\ Len(pshut) < 1 /\ pshut' = Append(pshut, TRUE) /\ scount' = scount + 1 /\ spc' = spc
         /\ UNCHANGED <<pos, conn, rvars, content, empty, full, pvars, inbound, delivered, errorCh, errPuts, shutCh>>
Shutdown == SWait \/ SClose \/ SStop

\* ---------------- environment: consumer and application ----------------
CRecv == /\ inbound # <<>> /\ delivered' = Append(delivered, Head(inbound)) /\ inbound' = Tail(inbound)
         /\ UNCHANGED <<pos, conn, rvars, content, empty, full, pvars, errorCh, errPuts, svars>>
CErr == /\ errorCh # <<>> /\ errorCh' = Tail(errorCh)
        /\ UNCHANGED <<pos, conn, rvars, content, empty, full, pvars, inbound, delivered, errPuts, svars>>
AppShutdown == /\ UserShutdown /\ spc = "wait" /\ shutCh = <<>> /\ rpc # "shut" /\ rpc # "done" /\ conn = "open"
               /\ shutCh' = Append(shutCh, TRUE)
               /\ UNCHANGED <<pos, conn, rvars, content, empty, full, pvars, inbound, delivered, errorCh, errPuts, spc, scount, pshut>>

Next == Reader \/ Shutdown \/ CRecv \/ CErr \/ AppShutdown \/ \E p \in Parsers : Parser(p)
Spec == Init /\ [][Next]_vars /\ WF_vars(Reader) /\ WF_vars(Shutdown) /\ WF_vars(CRecv) /\ WF_vars(CErr)
             /\ \A p \in Parsers : WF_vars(PParse(p) \/ PSend(p) \/ PReset(p) \/ PRet(p)) /\ SF_vars(PTake(p)) /\ SF_vars(PStop(p))

\* ---------------- properties ----------------
FrameSet == {Frames[i] : i \in 1..Len(Frames)}
FrameBag == LET RECURSIVE B(_) B(i) == IF i = 0 THEN EmptyBag ELSE B(i-1) (+) SetToBag({Frames[i]}) IN B(Len(Frames))
DeliveredBag == LET RECURSIVE B(_) B(i) == IF i = 0 THEN EmptyBag ELSE B(i-1) (+) SetToBag({Val(delivered[i])}) IN B(Len(delivered))
DeliveredIntact == \A i \in 1..Len(delivered) : Val(delivered[i]) \in FrameSet      \* now and in every later state
NoDupNoInvent == DeliveredBag \sqsubseteq FrameBag
\* frames completely contained in the bytes read so far
CompleteCount == Cardinality({i \in 1..Len(Frames) : Len(FlatF(SubSeq(Frames, 1, i))) <= pos})
NeverAhead == Len(delivered) <= CompleteCount
Quiescent == /\ rpc = "read" /\ pos = Len(Wire) /\ conn = "open" /\ full = <<>> /\ inbound = <<>> /\ \A p \in Parsers : ppc[p] = "idle"
AllDeliveredAtQuiescence == Quiescent => DeliveredBag = FrameBag
ErrorAtMostOnce == errPuts <= 1
ErrorIffFailed == (rpc = "done" /\ errPuts = 0) => conn = "closed"
PoolConservation == LET held == {pbuf[p] : p \in {q \in Parsers : pbuf[q] # 0}}
                        inE == {empty[i] : i \in 1..Len(empty)}  inF == {full[i] : i \in 1..Len(full)}
                        rd == IF cur = 0 \/ rpc = "take" THEN {} ELSE {cur}
                    IN /\ inE \cup inF \cup held \cup rd = Bufs
                       /\ Len(empty) + Len(full) + Cardinality(held) + Cardinality(rd) = PoolSize
EventuallyAllDelivered == (FailAt = {} /\ ~UserShutdown) => <>(Len(delivered) = Len(Frames))
FailureEventuallyPublished == [](conn = "failed" => <>(errPuts = 1))
\* growth beyond the listed properties: does every goroutine of the stream terminate once the connection is closed?
AllStopped == rpc = "done" /\ spc = "done" /\ \A p \in Parsers : ppc[p] = "stopped"
ShutdownTerminates == [](conn = "closed" => <>AllStopped)
=============================================================================
