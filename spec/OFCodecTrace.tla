---------------------------- MODULE OFCodecTrace ----------------------------
(* Judge for C05 (library round trip).  The four-phase machine               *)
(*   built --encode--> bytes --decode (followed by siblings)--> value'       *)
(*         --encode--> bytes'                                                *)
(* is executed on the real types for every object named in rt; the line      *)
(* records the projection of the built value and of the decoded value (same  *)
(* oracle-free projector), the decoder's verdict, the size the decoded value *)
(* reports and its re-encoding.                                              *)
EXTENDS OFWire
CONSTANT TraceFile
Trace == ndJsonDeserialize(TraceFile)
VARIABLES l, done
vars == <<l, done>>
Res(e) == IF Has(e.obs, "results") THEN e.obs.results ELSE <<>>
SpecKinds == MsgKinds \cup ActionKinds \cup InstrKinds \cup PktKinds \cup {"Match", "MatchField", "Bucket"}
HasTree(e, r) == Has(e, "trees") /\ r.obj \in DOMAIN e.trees
Checks(e) ==
  LET rs == Res(e) IN
  IF Len(rs) # Len(e.rt) THEN << <<"the API calls completed without panicking", FALSE>> >>
  ELSE
  << <<"no panic while encoding, decoding or re-encoding", \A i \in DOMAIN rs : ~Has(rs[i], "panic")>>,
     <<"encoding = the specified layout with the supplied values (every bit-field in its lane)",
        \A i \in DOMAIN rs : (Has(rs[i], "bytes") /\ HasTree(e, rs[i])) => rs[i].bytes = Enc(e.trees[rs[i].obj])>>,
     <<"the decoder accepts the library's own encoding", \A i \in DOMAIN rs : Has(rs[i], "err") => (~rs[i].err /\ ~Has(rs[i], "nil"))>>,
     <<"decoding yields a value of the same kind", \A i \in DOMAIN rs : Has(rs[i], "dectype") => rs[i].dectype = rs[i].origtype>>,
     <<"decoded value has the same observable field values", \A i \in DOMAIN rs : Has(rs[i], "dec") => rs[i].dec = rs[i].orig>>,
     <<"re-encoding the decoded value reproduces the original bytes", \A i \in DOMAIN rs : Has(rs[i], "reenc") => rs[i].reenc = rs[i].bytes>>,
     <<"the decoded value, read field by field by the specification's encoder, gives the original bytes",
        Has(e, "nospec") \/ \A i \in DOMAIN rs : (Has(rs[i], "dec") /\ Has(rs[i].dec, "T") /\ rs[i].dec.T \in SpecKinds) => Enc(rs[i].dec) = rs[i].bytes>>,
     <<"the payload decoder is chosen by ethertype / protocol / next-header chain",
        \A i \in DOMAIN rs : (Has(rs[i], "dec") /\ Has(rs[i].dec, "T") /\ rs[i].dec.T \in {"Ethernet", "IPv4", "IPv6"}) => rs[i].dec.Data.T = Demux(rs[i].dec)>>,
     <<"the decoded value accounts for exactly its own bytes (siblings follow)", \A i \in DOMAIN rs : Has(rs[i], "declen") => rs[i].declen = Len(rs[i].bytes)>> >>
Failed(e) == LET cs == Checks(e) IN {i \in DOMAIN cs : ~cs[i][2]}
FirstBad(e, k) == LET rs == Res(e)
                      S == {i \in DOMAIN rs : CASE k = 1 -> Has(rs[i], "panic")
                                                 [] k = 2 -> Has(rs[i], "bytes") /\ HasTree(e, rs[i]) /\ rs[i].bytes # Enc(e.trees[rs[i].obj])
                                                 [] k = 3 -> Has(rs[i], "err") /\ (rs[i].err \/ Has(rs[i], "nil"))
                                                 [] k = 4 -> Has(rs[i], "dectype") /\ rs[i].dectype # rs[i].origtype
                                                 [] k = 5 -> Has(rs[i], "dec") /\ rs[i].dec # rs[i].orig
                                                 [] k = 6 -> Has(rs[i], "reenc") /\ rs[i].reenc # rs[i].bytes
                                                 [] k = 7 -> ~Has(e, "nospec") /\ Has(rs[i], "dec") /\ Has(rs[i].dec, "T") /\ rs[i].dec.T \in SpecKinds /\ Enc(rs[i].dec) # rs[i].bytes
                                                 [] k = 8 -> Has(rs[i], "dec") /\ Has(rs[i].dec, "T") /\ rs[i].dec.T \in {"Ethernet", "IPv4", "IPv6"} /\ rs[i].dec.Data.T # Demux(rs[i].dec)
                                                 [] k = 9 -> Has(rs[i], "declen") /\ rs[i].declen # Len(rs[i].bytes)
                                                 [] OTHER -> FALSE} IN
                  IF S = {} THEN [none |-> TRUE]
                  ELSE LET i == CHOOSE j \in S : \A m \in S : j <= m IN
                       [obj |-> rs[i].obj, type |-> (IF Has(rs[i], "origtype") THEN rs[i].origtype ELSE "?"),
                        via |-> (IF Has(rs[i], "via") THEN rs[i].via ELSE "?"),
                        panic |-> (IF Has(rs[i], "panic") THEN rs[i].panic ELSE ""),
                        expected |-> (IF k = 2 THEN Enc(e.trees[rs[i].obj]) ELSE <<>>), observed |-> (IF k = 2 THEN rs[i].bytes ELSE <<>>),
                        where |-> (IF Has(rs[i], "where") THEN rs[i].where ELSE "")]
Init == l \in 1..Len(Trace) /\ done = FALSE
Judge == /\ ~done /\ done' = TRUE /\ UNCHANGED l
         /\ LET e == Trace[l]  bad == Failed(e) IN
              IF bad = {} THEN TRUE
              ELSE LET i == CHOOSE j \in bad : \A k \in bad : j <= k IN
                   PrintT(ToJson([reject |-> l, id |-> e.id, fam |-> e.fam, pred |-> Checks(e)[i][1], detail |-> FirstBad(e, i)]))
Next == Judge
Spec == Init /\ [][Next]_vars
=============================================================================
