---------------------------- MODULE OFCodecTrace ----------------------------
(* Judge for C05 (library round trip).  The four-phase machine               *)
(*   built --encode--> bytes --decode (followed by siblings)--> value'       *)
(*         --encode--> bytes'                                                *)
(* is executed on the real types for every object named in rt; the line      *)
(* records the projection of the built value and of the decoded value (same  *)
(* oracle-free projector), the decoder's verdict, the size the decoded value *)
(* reports and its re-encoding.                                              *)
EXTENDS OFWire
CONSTANTS TraceFile, Safe
Trace == ndJsonDeserialize(TraceFile)
VARIABLES l, done
vars == <<l, done>>
Res(e) == IF Has(e.obs, "results") THEN e.obs.results ELSE <<>>
SpecKinds == MsgKinds \cup ActionKinds \cup InstrKinds \cup PktKinds \cup {"Match", "MatchField", "Bucket"}
HasTree(e, r) == Has(e, "trees") /\ r.obj \in DOMAIN e.trees
\* The predicates are evaluated in this order and only until the first one fails (a later predicate reads the decoded projection field
\* by field and presupposes what the earlier ones established: that there is one, of the right kind and shape).
NChecks == 9
CheckName(k) ==
  CASE k = 0 -> "the API calls completed without panicking"
    [] k = 1 -> "no panic while encoding, decoding or re-encoding"
    [] k = 2 -> "encoding = the specified layout with the supplied values (every bit-field in its lane)"
    [] k = 3 -> "the decoder accepts the library's own encoding"
    [] k = 4 -> "decoding yields a value of the same kind"
    [] k = 5 -> "decoded value has the same observable field values"
    [] k = 6 -> "re-encoding the decoded value reproduces the original bytes"
    [] k = 7 -> "the decoded value, read field by field by the specification's encoder, gives the original bytes"
    [] k = 8 -> "the payload decoder is chosen by ethertype / protocol / next-header chain"
    [] k = 9 -> "the decoded value accounts for exactly its own bytes (siblings follow)"
Holds(e, k) ==
  LET rs == Res(e) IN
  CASE k = 1 -> \A i \in DOMAIN rs : ~Has(rs[i], "panic")
    [] k = 2 -> \A i \in DOMAIN rs : (Has(rs[i], "bytes") /\ HasTree(e, rs[i])) => rs[i].bytes = Enc(e.trees[rs[i].obj])
    [] k = 3 -> \A i \in DOMAIN rs : Has(rs[i], "err") => (~rs[i].err /\ ~Has(rs[i], "nil"))
    [] k = 4 -> \A i \in DOMAIN rs : Has(rs[i], "dectype") => rs[i].dectype = rs[i].origtype
    [] k = 5 -> \A i \in DOMAIN rs : Has(rs[i], "dec") => rs[i].dec = rs[i].orig
    [] k = 6 -> \A i \in DOMAIN rs : Has(rs[i], "reenc") => rs[i].reenc = rs[i].bytes
    [] k = 7 -> Safe \/ Has(e, "nospec") \/ \A i \in DOMAIN rs : (Has(rs[i], "dec") /\ Has(rs[i].dec, "T") /\ rs[i].dec.T \in SpecKinds) => Enc(rs[i].dec) = rs[i].bytes
    [] k = 8 -> Safe \/ \A i \in DOMAIN rs : (Has(rs[i], "dec") /\ Has(rs[i].dec, "T") /\ rs[i].dec.T \in {"Ethernet", "IPv4", "IPv6"}) => rs[i].dec.Data.T = Demux(rs[i].dec)
    [] k = 9 -> \A i \in DOMAIN rs : Has(rs[i], "declen") => rs[i].declen = Len(rs[i].bytes)
RECURSIVE FirstFailFrom(_, _)
FirstFailFrom(e, k) == IF k > NChecks THEN -1 ELSE IF ~Holds(e, k) THEN k ELSE FirstFailFrom(e, k + 1)
\* -1: every predicate holds; 0: the scenario did not run to the end
FirstFail(e) == IF Len(Res(e)) # Len(e.rt) THEN 0 ELSE FirstFailFrom(e, 1)
FirstBad(e, k) == LET rs == Res(e)
                      S == {i \in DOMAIN rs : CASE k = 1 -> Has(rs[i], "panic")
                                                 [] k = 2 -> Has(rs[i], "bytes") /\ HasTree(e, rs[i]) /\ rs[i].bytes # Enc(e.trees[rs[i].obj])
                                                 [] k = 3 -> Has(rs[i], "err") /\ (rs[i].err \/ Has(rs[i], "nil"))
                                                 [] k = 4 -> Has(rs[i], "dectype") /\ rs[i].dectype # rs[i].origtype
                                                 [] k = 5 -> Has(rs[i], "dec") /\ rs[i].dec # rs[i].orig
                                                 [] k = 6 -> Has(rs[i], "reenc") /\ rs[i].reenc # rs[i].bytes
                                                 [] k = 7 -> ~Has(e, "nospec") /\ Has(rs[i], "dec") /\ Has(rs[i].dec, "T") /\ rs[i].dec.T \in SpecKinds /\ Enc(rs[i].dec) # rs[i].bytes
                                                 [] k = 8 -> Has(rs[i], "dec") /\ Has(rs[i].dec, "T") /\ rs[i].dec.T \in {"Ethernet", "IPv4", "IPv6"} /\ rs[i].dec.Data.T # Demux(rs[i].dec)
                                                 [] k = 9 -> Has(rs[i], "declen") /\ rs[i].declen # Len(rs[i].bytes)
                                                 [] OTHER -> FALSE} IN
                  IF S = {} THEN [none |-> TRUE]
                  ELSE LET i == CHOOSE j \in S : \A m \in S : j <= m IN
                       [obj |-> rs[i].obj, type |-> (IF Has(rs[i], "origtype") THEN rs[i].origtype ELSE "?"),
                        via |-> (IF Has(rs[i], "via") THEN rs[i].via ELSE "?"),
                        panic |-> (IF Has(rs[i], "panic") THEN rs[i].panic ELSE ""),
                        expected |-> (IF k = 2 THEN Enc(e.trees[rs[i].obj]) ELSE <<>>), observed |-> (IF k = 2 THEN rs[i].bytes ELSE <<>>),
                        where |-> (IF Has(rs[i], "where") THEN rs[i].where ELSE "")]
Init == l \in 1..Len(Trace) /\ done = FALSE
Judge == /\ ~done /\ done' = TRUE /\ UNCHANGED l
         /\ LET e == Trace[l]  k == FirstFail(e) IN
              IF k = -1 THEN TRUE
              ELSE PrintT(ToJson([reject |-> l, id |-> e.id, fam |-> e.fam, pred |-> CheckName(k), detail |-> FirstBad(e, k)]))
Next == Judge
Spec == Init /\ [][Next]_vars
=============================================================================
