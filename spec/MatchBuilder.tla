---------------------------- MODULE MatchBuilder ----------------------------
(* The generic match-field builder NewMatchField(name, value, window...).    *)
(* A call is a record                                                        *)
(*   [name, form \in 0..3, v (set of bit positions of |value|), neg,         *)
(*    o, n, s]                                                               *)
(* form 0: no window; form 2: window (o, n), value given relative to the     *)
(* window (the builder shifts it to bit o); form 3: (o, n, s) where s = 1    *)
(* means "shift" (same as form 2) and any other s means the value is given   *)
(* already in place; form 1: (o) with the width taken from the value itself  *)
(* (n = bit length of the value).  Bit 0 is the least significant bit of the *)
(* field.                                                                    *)
EXTENDS Registry
MaxOf(S) == CHOOSE x \in S : \A y \in S : y <= x
BitLen(v) == IF v = {} THEN 0 ELSE MaxOf(v) + 1
Shifts(c) == c.form \in {1, 2} \/ (c.form = 3 /\ c.s = 1)
WinO(c) == c.o
WinN(c) == IF c.form = 1 THEN BitLen(c.v) ELSE c.n
Window(c) == WinO(c)..(WinO(c) + WinN(c) - 1)
Placed(c) == IF c.form # 0 /\ Shifts(c) /\ c.o >= 0 THEN ShiftBits(c.v, c.o) ELSE c.v
\* representable in a field of W bytes
Rep(c, W) == /\ ~c.neg
             /\ IF c.form = 0 THEN c.v \subseteq 0..(8 * W - 1)
                ELSE /\ WinO(c) >= 0 /\ WinN(c) >= 1 /\ WinO(c) + WinN(c) <= 8 * W
                     /\ Placed(c) \subseteq Window(c)
ValueBytes(c, W) == BitsToBytes(Placed(c), W)
MaskBytes(c, W) == BitsToBytes(Window(c), W)
HasMask(c) == IF c.form = 0 THEN 0 ELSE 1
\* the encoded match field (OXM/NXM TLV): header word, value, mask
FieldBytes(c) ==
  LET W == WidthOf(c.name)  hm == HasMask(c) IN
  Pack(ClassOf(c.name), FieldOf(c.name), hm, W * (1 + hm)) \o ValueBytes(c, W)
    \o (IF hm = 1 THEN MaskBytes(c, W) ELSE <<>>)
\* the property's clauses on the model (checked by TLC for every generated call)
ModelOK(c) ==
  LET W == WidthOf(c.name) IN
  Rep(c, W) =>
    /\ Len(ValueBytes(c, W)) = W
    /\ BytesToBits(ValueBytes(c, W)) = Placed(c)                        \* the input placed at the window
    /\ (c.form # 0 => /\ BytesToBits(MaskBytes(c, W)) = Window(c)       \* mask covers exactly the window
                      /\ Len(MaskBytes(c, W)) = W
                      /\ BytesToBits(ValueBytes(c, W)) \subseteq BytesToBits(MaskBytes(c, W)))
=============================================================================
