------------------------- MODULE MatchBuilderTrace -------------------------
(* Judge for C17: one recorded NewMatchField call per line.                 *)
EXTENDS MatchBuilder
CONSTANT TraceFile
Trace == ndJsonDeserialize(TraceFile)
VARIABLES l, done
vars == <<l, done>>
Has(r, f) == f \in DOMAIN r
CallOf(e) == [name |-> e.name, form |-> e.form, v |-> BytesToBits(e.val), neg |-> e.neg, o |-> e.o, n |-> e.n, s |-> e.s]
IsReg(name) == ClassOf(name) = 1 /\ FieldOf(name) <= 15
Checks(e) ==
  LET c == CallOf(e)  W == WidthOf(e.name)  o == e.obs  rep == Rep(c, W) IN
  << <<"no panic", ~Has(o, "panic")>>,
     <<"unrepresentable input is reported as an error", rep \/ (Has(o, "err") /\ o.err)>>,
     <<"representable input is accepted", ~rep \/ (Has(o, "err") /\ ~o.err)>>,
     <<"value placed at the window, mask covers exactly the window, sizes equal the field width",
         ~rep \/ (Has(o, "bytes") /\ o.bytes = FieldBytes(c))>>,
     <<"value and mask sizes reported by the field", ~rep \/ (Has(o, "vlen") /\ o.vlen = W /\ (c.form = 0 \/ o.mlen = W))>>,
     <<"same bytes as the dedicated register constructor",
         ~rep \/ ~IsReg(e.name) \/ c.form \in {0, 1} \/ (Has(o, "regbytes") /\ o.regbytes = FieldBytes(c))>>,
     <<"caller's arguments are left unmodified", Has(o, "argsame") /\ o.argsame>> >>
Failed(e) == LET cs == Checks(e) IN {i \in DOMAIN cs : ~cs[i][2]}
Init == l \in 1..Len(Trace) /\ done = FALSE
Judge == /\ ~done /\ done' = TRUE /\ UNCHANGED l
         /\ LET e == Trace[l]  bad == Failed(e) IN
              IF bad = {} THEN TRUE
              ELSE LET i == CHOOSE j \in bad : \A k \in bad : j <= k IN
                   PrintT(ToJson([reject |-> l, id |-> e.id, pred |-> Checks(e)[i][1],
                                  scenario |-> [x \in DOMAIN e \ {"obs"} |-> e[x]], obs |-> e.obs]))
Next == Judge
Spec == Init /\ [][Next]_vars
=============================================================================
