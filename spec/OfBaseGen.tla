------------------------------ MODULE OfBaseGen ------------------------------
(* Generators for C19.                                                       *)
(*  "E": every sequence of typed writes / raw writes / alignment skips up to *)
(*       Depth (values position-tagged or all-ones), to be encoded and then  *)
(*       decoded in the same order.                                          *)
(*  "D": every enabled sequence of decoder operations (skip, align, slice,   *)
(*       typed read, pop) up to Depth over an N-byte message.                *)
(*  "H": header decoding from inputs of every length 0..16 at offsets 0..3.  *)
EXTENDS OfBase
CONSTANTS Family, Depth, N
VARIABLES hist, stk
vars == <<hist, stk>>

Tagged(i, w) == [j \in 1..w |-> (16 * i + j) % 256]
EncAlphabet(i) ==
  {<<k, Tagged(i, Width[k])>> : k \in {"u8", "u16", "u32", "u64", "u128"}}
  \cup {<<k, Fill(Width[k], 255)>> : k \in {"u8", "u16", "u32", "u64", "u128"}}
  \cup {<<"raw", Tagged(i, w)>> : w \in {0, 1, 3}} \cup {<<"align">>}
  \cup {<<"ch", Tagged(i, 1)>>}                          \* PutChar, read back with ReadByte
DecAlphabet ==
  {<<"skip", n>> : n \in {1, 3, 5}} \cup {<<"align">>, <<"pop">>}
  \cup {<<"slice", ln, rw>> : ln \in {4, 9, 12}, rw \in {0, 2}} \cup {<<"rd", w>> : w \in {1, 2, 4}}

Init == hist = <<>> /\ stk = InitStack(N)
NextE == /\ Len(hist) < Depth
         /\ \E op \in EncAlphabet(Len(hist) + 1) :
              /\ hist' = Append(hist, op) /\ UNCHANGED stk
              /\ PrintT(ToJson([k |-> "enc", ops |-> hist']))
NextD == /\ Len(hist) < Depth
         /\ \E op \in DecAlphabet :
              /\ DecEnabled(stk, op)
              /\ hist' = Append(hist, op) /\ stk' = DecStep(stk, op)
              /\ PrintT(ToJson([k |-> "dec", n |-> N, ops |-> hist']))
NextH == /\ hist = <<>>
         \* via: how the input is held -- its own array, a prefix of a longer array (bytes beyond the input exist in memory, as in a
         \* receive buffer), or a slice decoder over a window of an enclosing message
         /\ \E ln \in 0..16, pre \in 0..3, via \in {"exact", "prefix", "slice"} :
              /\ pre <= ln
              /\ hist' = <<ln, pre, via>> /\ UNCHANGED stk
              /\ PrintT(ToJson([k |-> "hdr", n |-> ln, pre |-> pre, via |-> via]))
Next == CASE Family = "E" -> NextE [] Family = "D" -> NextD [] Family = "H" -> NextH
Spec == Init /\ [][Next]_vars

\* alignment clause holds for every reachable decoder frame (design level)
AlignInv == \A i \in 1..Len(stk) : AlignExact(stk[i])
FramesNested == \A i \in 1..Len(stk) : /\ stk[i].s <= stk[i].e /\ stk[i].s + stk[i].o <= N + 7
                                       /\ (i > 1 => stk[i].s >= stk[i-1].s /\ stk[i].e <= stk[i-1].e)
=============================================================================
