------------------------------- MODULE OFSwGen -------------------------------
(* Frames a conforming switch sends (C04), also used as base frames for the   *)
(* ownership (C12) and totality (C07) checks: each line carries the tree, the *)
(* frame = Enc(tree) written by the specification's encoder, and the Go type  *)
(* the parser must return.                                                    *)
EXTENDS OFSwitch
CONSTANTS Family, Tags
Emit(fam, t) == PrintT(ToJson([k |-> "parse", fam |-> fam, kind |-> t.T, tree |-> t, frame |-> Enc(t), gotype |-> GoType(t), scribble |-> TRUE]))
NextSW == \E kind \in SwKinds, tag \in Tags : c' = <<kind, tag>> /\ Emit("SW", SwTree(kind, tag))
\* packet-in: every packet kind x match-field lists of length 0, 1, 2, 5; every supported match-field kind (with mask) once
NextPI == \E tag \in Tags :
            \/ \E pk \in PacketKinds, nf \in {0, 1, 2, 5} :
                 /\ c' = <<pk, nf, tag>>
                 /\ Emit("PI", PacketInTree(pk, [i \in 1..nf |-> <<DecMF(tag + 7 * i), FALSE>>], tag))
            \/ \E len \in {4, 8, 64}, masked \in BOOLEAN, idx \in {0, 3, 7} :      \* variable-length byte-array fields: tunnel metadata, 128-bit registers
                 /\ (masked => len <= 64)
                 /\ c' = <<"bytearray", len, masked, idx, tag>>
                 /\ Emit("PI", [PacketInTree("ip4udp", <<>>, tag) EXCEPT !.Match =
                        [T |-> "Match", Fields |-> <<TunMetaEl("f1", idx, len, masked, tag).tree,
                                                      GenField("f2", "NXM_NX_XXREG" \o ToString(idx % 4), {0, 5, 70 + idx}, 8, IF masked THEN "range" ELSE "plain").tree,
                                                      MF("f3", 1, tag, FALSE).tree>>]])
            \/ \E k \in DecodableMF, masked \in BOOLEAN :
                 /\ (masked => MFTable[k][4] # 0)
                 /\ c' = <<"mf", k, masked, tag>>
                 /\ Emit("PI", PacketInTree("ip4udp", << <<k, masked>> >>, tag))
\* ONF experimenter-class OXMs (decode only: the library has no encoder for the experimenter id) at every position of a field list
ExpOxm(fld, w, tag) == [T |-> "MatchField", Class |-> <<255, 255>>, Field |-> <<fld>>, HasMask |-> FALSE, ExperimenterID |-> <<79, 78, 70, 0>>, Value |-> V(tag, w)]
NextXO == \E pos \in 1..3, fld \in {42, 43}, both \in BOOLEAN, tag \in Tags :
            LET x == ExpOxm(fld, IF fld = 42 THEN 2 ELSE 4, tag)
                a == MF("f", 4, tag + 1, FALSE).tree  b == MF("f", 19, tag + 2, FALSE).tree  y == ExpOxm(85 - fld, IF fld = 42 THEN 4 ELSE 2, tag + 3)
                fs == CASE pos = 1 -> <<x, a, b>> [] pos = 2 -> <<a, x, b>> [] pos = 3 -> <<a, b, x>>
                fs2 == IF both THEN fs \o <<y, a>> ELSE fs
                t == [PacketInTree("ip4udp", <<>>, tag) EXCEPT !.Match = [T |-> "Match", Fields |-> fs2]] IN
            /\ c' = <<pos, fld, both, tag>>
            /\ PrintT(ToJson([k |-> "parse", fam |-> "XO", kind |-> t.T, tree |-> t, frame |-> Enc(t), gotype |-> GoType(t), scribble |-> TRUE, noreenc |-> TRUE]))
NextMP == \E kind \in {"desc", "flow", "aggregate", "table", "port", "queue", "portdesc"}, n \in {0, 1, 2, 5}, tag \in Tags :
            /\ (kind \in {"desc", "aggregate"} => n = 1)
            /\ c' = <<kind, n, tag>>
            /\ Emit("MP", MpReplyTree(kind, n, tag))
\* flow-stats replies with a minimal record (match-all, no instructions: 56 bytes, e.g. a table-miss flow) at every position of the
\* list -- an element that exactly fills what is left of the buffer when it comes last
NextMPmin == \E n \in 1..3, k \in 1..3, tag \in Tags :
               /\ k <= n
               /\ c' = <<"flowmin", n, k, tag>>
               /\ LET normal == StatsBody("flow", n, tag) IN
                  Emit("MP", [MpReplyTree("flow", 0, tag) EXCEPT !.Body = [i \in 1..n |-> IF i = k THEN FlowStatsTree(<<>>, <<>>, tag + 50 + i) ELSE normal[i]]])
\* frames the library decodes lossily (so they are outside C04 / C05) but must still own: ARP with hardware addresses longer than
\* Ethernet's (hardware length 20)
NextPX == \E tag \in Tags :
            /\ c' = <<"arp20", tag>>
            /\ LET arp == [T |-> "ARP", HWType |-> <<0, 32>>, ProtoType |-> <<8, 0>>, HWLength |-> <<20>>, ProtoLength |-> <<4>>, Operation |-> <<0, 1>>,
                           HWSrc |-> V(tag, 20), IPSrc |-> V(tag + 1, 4), HWDst |-> V(tag + 2, 20), IPDst |-> V(tag + 3, 4)]
                   eth == [P!EthEl("e", 0, 0, 0, <<8, 6>>, P!ArpEl("p", tag, 1), tag).tree EXCEPT !.Data = arp] IN
               Emit("PX", [PacketInTree("arp", <<>>, tag) EXCEPT !.Data = eth])
InnerMsg2(kind, tag) ==
  CASE kind \in SimpleKinds -> SimpleEl("in", kind, tag)
    [] kind = "flowmod" -> FlowModEl("in", tag % 5, <<MF("inf", DecMF(tag), tag, FALSE)>>, <<>>, tag)
    [] kind = "groupmod" -> GroupModEl("in", tag % 3, 0, <<BucketEl("inb", <<LeafAct("ina", "output", tag)>>, tag)>>, tag)
    [] kind = "pktout" -> PacketOutEl("in", <<LeafAct("ina", "output", tag)>>, 11, tag)
\* controller-originated kinds are parseable too (a controller may receive them from a peer, and the stream parses whatever arrives)
NextCT == \E tag \in Tags :
            \/ \E kind \in SimpleKinds : c' = <<kind, tag>> /\ Emit("CT", SimpleEl("m", kind, tag).tree)
            \/ \E cmd \in 0..4, k \in 0..3 :
                 /\ c' = <<"fm", cmd, k, tag>>
                 /\ Emit("CT", [FlowModEl("m", cmd, <<MF("f1", DecMF(tag + k), tag, FALSE), MF("f2", 8, tag + 1, TRUE)>>, <<>>, tag).tree EXCEPT !.Instructions = InstrTrees(k, tag)])
            \/ \E cmd \in 0..2, nb \in 0..2 :
                 /\ c' = <<"gm", cmd, nb, tag>>
                 /\ Emit("CT", GroupModEl("m", cmd, tag % 4, [i \in 1..nb |-> BucketEl("b" \o ToString(i), <<LeafAct("x" \o ToString(i), (<<"output", "setfield", "note6">>)[i], tag + i)>>, tag + i)], tag).tree)
            \/ \E na \in 0..2 :
                 /\ c' = <<"po", na, tag>>
                 /\ Emit("CT", PacketOutEl("m", [i \in 1..na |-> LeafAct("a" \o ToString(i), (<<"output", "regload2">>)[i], tag + i)], 14, tag).tree)
            \/ \E kind \in LeafActKinds, first \in BOOLEAN :        \* packet-out with every action kind before / after a plain output action
                 /\ c' = <<"poact", kind, first, tag>>
                 /\ LET a == LeafAct("a1", kind, tag)  o == LeafAct("a2", "group", tag + 3) IN
                    Emit("CT", PacketOutEl("m", IF first THEN <<a, o>> ELSE <<o, a>>, 5, tag).tree)
            \/ \E kind \in MpKinds : c' = <<"mp", kind, tag>> /\ Emit("CT", MpReqEl("m", kind, <<>>, tag).tree)
            \/ \E k \in 0..2 : c' = <<"tlv", k, tag>> /\ Emit("CT", TlvModEl("m", k, tag).tree)
            \/ \E inner \in {"echoreq", "flowmod", "groupmod", "pktout", "portmod"} :
                 c' = <<"ba", inner, tag>> /\ Emit("CT", BundleAddEl("m", InnerMsg2(inner, tag), tag).tree)
            \/ \E inner \in {"setconfig", "flowmod", "pktout"}, dl \in {0, 1, 3, 4, 9, 11} :     \* (3, 11: the last property ends unpadded, exactly at the end of the message)      \* bundle-add with properties carrying data (frames only: the API cannot build them)
                 /\ c' = <<"bap", inner, dl, tag>>
                 /\ LET ba == BundleAddEl("m", InnerMsg2(inner, tag), tag).tree
                        pr(i) == [T |-> "BundlePropertyExperimenter", ExperimenterID |-> V(tag + i, 4), ExperimenterType |-> V(tag + i + 1, 4), Data |-> V(tag + i + 2, dl + i - 1)] IN
                    Emit("CT", [ba EXCEPT !.VendorData.Properties = <<pr(1), pr(2)>>])
            \/ \E kind \in LeafActKinds :
                 /\ c' = <<"act", kind, tag>>
                 /\ Emit("CT", FlowModEl("m", 0, <<>>, <<InstrActs("i", "apply", << <<LeafAct("a1", kind, tag), FALSE>>, <<LeafAct("a2", "output", tag), FALSE>> >>)>>, tag).tree)
\* switch-originated kinds built through the Go API: the encoders of these kinds under the construction judge (C03, C05, C06, C13)
NextEB == \/ \E kind \in LibKinds, tag \in Tags :
               LET el == LibBuilt(kind, tag) IN
               /\ c' = <<kind, tag>>
               /\ PrintT(ToJson([k |-> "build", fam |-> "EB", nospec |-> TRUE, top |-> el.n, ops |-> el.ops,
                                 observe |-> << <<"len", el.n>>, <<"marshal", el.n>>, <<"len", el.n>>, <<"marshal", el.n>> >>
                                             \o (IF kind \in {"libport", "libtable", "libqueue"} THEN << <<"len", "r1">>, <<"marshal", "r1">>, <<"marshal", "r2">> >>
                                                 ELSE << <<"len", "b">>, <<"marshal", "b">> >>),
                                 kids |-> IF kind \in {"libport", "libtable", "libqueue"} THEN <<"r1", "r2">> ELSE <<"b">>, trees |-> [x \in {el.n} |-> el.tree]]))
          \/ \E kind \in BuiltKinds, tag \in Tags :
            LET el == Built(kind, tag) IN
            /\ c' = <<kind, tag>>
            /\ PrintT(ToJson([k |-> "build", fam |-> "EB", top |-> el.n, ops |-> el.ops,
                              observe |-> << <<"len", el.n>>, <<"marshal", el.n>>, <<"len", el.n>>, <<"marshal", el.n>>, <<"marshal", el.n>> >>,
                              kids |-> <<>>, trees |-> [x \in {el.n} |-> el.tree]]))
\* the largest frames the 16-bit length field allows (base frames of the totality check C07: the decoders' cursors and sizes are
\* 16-bit, so sums and round-ups near 65535 are where they wrap); only the frame is emitted, mutations are confined to a window
EmitBig(kind, fr) == PrintT(ToJson([k |-> "parse", fam |-> "BIG", kind |-> kind, frame |-> fr, win |-> <<96, 192>>, scribble |-> FALSE]))
BigFrame(shape) ==
  CASE shape = "flowstats" -> Enc([T |-> "MultipartReply", Header |-> H(7), Type |-> <<0, 1>>, Flags |-> <<0, 0>>,
                                   Body |-> [i \in 1..1169 |-> FlowStatsTree(<<>>, <<>>, i % 190)]])            \* 16 + 1169 * 56 = 65480
    [] shape = "flowstats-instr" -> Enc([T |-> "MultipartReply", Header |-> H(8), Type |-> <<0, 1>>, Flags |-> <<0, 1>>,
                                   Body |-> [i \in 1..540 |-> FlowStatsTree(<< <<DecMF(i), FALSE>> >>, InstrTrees(1 + (i % 3), i % 150), i % 190)]])
    \* a byte string longer than any OpenFlow message (the 16-bit header length wraps): Parse is handed "any byte string whatsoever"
    [] shape = "overlong" -> Enc([T |-> "MultipartReply", Header |-> H(8), Type |-> <<0, 1>>, Flags |-> <<0, 1>>,
                                   Body |-> [i \in 1..680 |-> FlowStatsTree(<< <<DecMF(i), FALSE>> >>, InstrTrees(1 + (i % 3), i % 150), i % 190)]])
    [] shape = "portdesc" -> Enc([T |-> "MultipartReply", Header |-> H(9), Type |-> <<0, 13>>, Flags |-> <<0, 0>>, Body |-> [i \in 1..1023 |-> PortTree(i % 180)]])
    [] shape = "error" -> Enc([T |-> "ErrorMsg", Header |-> H(10), Type |-> <<0, 2>>, Code |-> <<0, 1>>, Data |-> [T |-> "Buffer", B |-> V(11, 65535 - 12)]])
    [] shape = "hello" -> Enc([T |-> "Hello", Header |-> H(12), Elements |-> << [T |-> "HelloElemVersionBitmap", Bitmaps |-> [i \in 1..16380 |-> V(i % 200, 4)]] >>])
    [] shape = "flowmod" -> Enc(FlowModEl("m", 0, <<>>, <<InstrActs("i1", "apply", [i \in 1..4000 |-> <<LeafAct("a", "output", i % 200), FALSE>>])>>, 13).tree)
    [] shape = "groupmod" -> Enc(GroupModEl("m", 0, 1, [i \in 1..1500 |-> BucketEl("b", <<LeafAct("a", "group", i % 200)>>, i % 200)], 14).tree)
    [] shape = "pktout" -> Enc(PacketOutEl("m", <<LeafAct("a1", "output", 15)>>, 65535 - 24 - 16, 15).tree)
BigShapes == {"flowstats", "flowstats-instr", "overlong", "portdesc", "error", "hello", "flowmod", "groupmod", "pktout"}
NextBIG == \E shape \in BigShapes : c' = <<shape>> /\ EmitBig(shape, BigFrame(shape))
Init == c = <<>>
Next == c = <<>> /\ CASE Family = "EB" -> NextEB [] Family = "SW" -> NextSW [] Family = "XO" -> NextXO [] Family = "PI" -> NextPI [] Family = "MP" -> (NextMP \/ NextMPmin) [] Family = "CT" -> NextCT [] Family = "BIG" -> NextBIG [] Family = "PX" -> NextPX
Spec == Init /\ [][Next]_c
=============================================================================
