------------------------------- MODULE OFTrace -------------------------------
(* Judge for the construction scenarios (C01, C02, C03, C06, C13): every line *)
(* carries the API calls, the observers that were run, what each returned on  *)
(* the real code, and the abstract tree of every observed object.  Each       *)
(* predicate is tagged with the property it belongs to; Prop selects which    *)
(* are evaluated ("all" = every one).                                         *)
EXTENDS OFWire
CONSTANTS TraceFile, Prop
Trace == ndJsonDeserialize(TraceFile)
VARIABLES l, done
vars == <<l, done>>
Res(e) == IF Has(e.obs, "results") THEN e.obs.results ELSE <<>>
Aligned(e) == Len(Res(e)) = Len(e.observe)
Idx(e) == 1..Len(e.observe)
ObjOf(e, i) == e.observe[i][2]
KindOf(e, i) == e.observe[i][1]
TreeOf(e, i) == e.trees[ObjOf(e, i)]
GotBytes(e, i) == KindOf(e, i) = "marshal" /\ Has(Res(e)[i], "bytes")
GotLen(e, i) == KindOf(e, i) = "len" /\ Has(Res(e)[i], "len")
TopIdx(e) == {i \in Idx(e) : ObjOf(e, i) = e.top}
\* first index of needle in hay at or after position from (0 if none)
RECURSIVE Find(_, _, _)
Find(hay, needle, from) == IF from + Len(needle) - 1 > Len(hay) THEN 0
                           ELSE IF OccursAt(hay, needle, from) THEN from ELSE Find(hay, needle, from + 1)
RECURSIVE InOrder(_, _, _)
InOrder(hay, needles, from) == IF needles = <<>> THEN TRUE
                               ELSE LET p == Find(hay, Head(needles), from) IN p > 0 /\ InOrder(hay, Tail(needles), p + Len(Head(needles)))
LastBytes(e, obj) == LET S == {i \in Idx(e) : ObjOf(e, i) = obj /\ GotBytes(e, i)} IN
                     IF S = {} THEN <<>> ELSE Res(e)[CHOOSE i \in S : \A j \in S : j <= i].bytes
Enabled(tag) == Prop = "all" \/ tag = "all" \/ tag = Prop
\* a check is evaluated only when its property is selected (operator arguments are evaluated lazily)
Ck(tag, name, cond) == <<tag, name, IF Enabled(tag) THEN cond ELSE TRUE>>
HasSpec(e) == ~Has(e, "nospec")          \* top-down histories carry no tree: only framing and repeatability are judged
Checks(e) ==
  IF ~Aligned(e) THEN << <<"all", "the API calls completed without panicking", FALSE>> >>
  ELSE LET r == Res(e) IN
  << Ck("all", "no observer panicked", \A i \in Idx(e) : ~Has(r[i], "panic")),
     Ck("all", "an encoding that was handed out is not changed by later size queries or encodings (of this or another value)",
        Has(e.obs, "clobbered") => e.obs.clobbered = <<>>),
     Ck("C01", "header carries version 4 and the type code of the message kind",
        \A i \in TopIdx(e) : GotBytes(e, i) => (Len(r[i].bytes) >= 8 /\ r[i].bytes[1] = 4 /\ r[i].bytes[2] = TypeCode(TreeOf(e, i)))),
     Ck("C01", "header length field = number of bytes produced",
        \A i \in TopIdx(e) : GotBytes(e, i) => (Len(r[i].bytes) >= 8 /\ W16(r[i].bytes, 3) = Len(r[i].bytes))),
     Ck("C01", "size the message reports for itself = number of bytes produced",
        \A i \in TopIdx(e), j \in TopIdx(e) : (GotLen(e, i) /\ GotBytes(e, j)) => r[i].len = Len(r[j].bytes)),
     Ck("C02", "a walker using only declared lengths, alignment, zero padding and legal codes consumes the message exactly",
        \A i \in TopIdx(e) : GotBytes(e, i) => WalkMsg(r[i].bytes)),
     Ck("C03", "encoding = the specified layout with the supplied values",
        HasSpec(e) => \A i \in Idx(e) : GotBytes(e, i) => r[i].bytes = Enc(TreeOf(e, i))),
     Ck("C06", "reported size = encoded size",
        \A i \in Idx(e), j \in Idx(e) : (ObjOf(e, i) = ObjOf(e, j) /\ GotLen(e, i) /\ GotBytes(e, j)) => r[i].len = Len(r[j].bytes)),
     Ck("C06", "encoded size = the size the grammar assigns to the value (nothing added was dropped or truncated)",
        HasSpec(e) => \A i \in Idx(e) : GotBytes(e, i) => Len(r[i].bytes) = Len(Enc(TreeOf(e, i)))),
     Ck("C06", "children's standalone encodings appear inside the container whole, unmodified, disjoint and in order",
        InOrder(LastBytes(e, e.top), [k \in DOMAIN e.kids |-> LastBytes(e, e.kids[k])], 1)),
     Ck("C13", "sizing and encoding the value while it was being built did not change what it encodes to",
        (HasSpec(e) /\ \E k \in DOMAIN e.ops : e.ops[k].op = "obs") => \A i \in Idx(e) : GotBytes(e, i) => r[i].bytes = Enc(TreeOf(e, i))),
     Ck("C13", "repeated size queries and encodings give the same answer",
        \A i \in Idx(e), j \in Idx(e) : (ObjOf(e, i) = ObjOf(e, j) /\ KindOf(e, i) = KindOf(e, j)) => r[i] = r[j]) >>
Mismatch(e) == IF ~(Enabled("C03") /\ HasSpec(e)) THEN {} ELSE {i \in Idx(e) : GotBytes(e, i) /\ Res(e)[i].bytes # Enc(TreeOf(e, i))}
Detail(e) == IF ~Aligned(e) \/ Mismatch(e) = {} THEN [none |-> TRUE]
             ELSE LET i == CHOOSE j \in Mismatch(e) : \A k \in Mismatch(e) : j <= k IN
                  [obj |-> ObjOf(e, i), kind |-> TreeOf(e, i).T, expected |-> Enc(TreeOf(e, i)), observed |-> Res(e)[i].bytes]
Failed(e) == LET cs == Checks(e) IN {i \in DOMAIN cs : ~cs[i][3]}
Init == l \in 1..Len(Trace) /\ done = FALSE
Judge == /\ ~done /\ done' = TRUE /\ UNCHANGED l
         /\ LET e == Trace[l]  bad == Failed(e) IN
              IF bad = {} THEN TRUE
              ELSE LET i == CHOOSE j \in bad : \A k \in bad : j <= k IN
                   PrintT(ToJson([reject |-> l, id |-> e.id, fam |-> e.fam, prop |-> Checks(e)[i][1], pred |-> Checks(e)[i][2],
                                  nfailed |-> Cardinality(bad), detail |-> Detail(e)]))
Next == Judge
Spec == Init /\ [][Next]_vars
=============================================================================
