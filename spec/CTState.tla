------------------------------ MODULE CTState ------------------------------
(* The connection-tracking state builder (openflow13.CTStates) as a state   *)
(* machine: each of the eight ct_state flags is untouched, set or unset;    *)
(* 16 operations (Set<F>/Unset<F>).  Observable: the 32 value bits and 32   *)
(* mask bits of the NXM_NX_CT_STATE match field built from it.              *)
(* Bit numbers are OVS's: new 0, est 1, rel 2, rpl 3, inv 4, trk 5,         *)
(* snat 6, dnat 7 (ovs-fields(7), ct_state).                                *)
EXTENDS Bytes, TLC, Json
Flags == 0..7
Pol == {"s", "c"}                  \* set (+flag) / clear (-flag)
FlagName == <<"New", "Est", "Rel", "Rpl", "Inv", "Trk", "SNAT", "DNAT">>

Untouched == [f \in Flags |-> "u"]
Apply(st, f, p) == [st EXCEPT ![f] = p]
RECURSIVE ApplySeq(_, _)
ApplySeq(st, ops) == IF ops = <<>> THEN st
                     ELSE ApplySeq(Apply(st, Head(ops)[1], Head(ops)[2]), Tail(ops))

ValueBits(st) == {f \in Flags : st[f] = "s"}   \* polarity of the most recent call
MaskBits(st)  == {f \in Flags : st[f] # "u"}   \* touched at least once
\* NXM header of ct_state with mask: class 0x0001, field 105, hasmask, length 8
CtStateHeader == <<0, 1, 105 * 2 + 1, 8>>
Wire(st) == CtStateHeader \o BitsToBytes(ValueBits(st), 4) \o BitsToBytes(MaskBits(st), 4)

\* JSON helpers: functions over 0..7 are serialised as 8-element arrays
ToArr(st) == [i \in 1..8 |-> st[i - 1]]
FromArr(a) == [f \in Flags |-> a[f + 1]]
=============================================================================
