-------------------------------- MODULE Xid --------------------------------
(* Properties of the transaction-id generator XidCore.tla as TLC checks them  *)
(* (XidProof.tla proves pairwise distinctness for any number of drawers and   *)
(* draws with TLAPS).                                                         *)
EXTENDS XidCore
Issued == UNION {{got[p][i] : i \in 1..Len(got[p])} : p \in Procs}
Total == LET RECURSIVE S(_) S(ps) == IF ps = {} THEN 0 ELSE LET p == CHOOSE x \in ps : TRUE IN Len(got[p]) + S(ps \ {p})
         IN S(Procs)
\* the property: ids are pairwise distinct across all drawers
Distinct == Cardinality(Issued) = Total
\* what fetch-and-add additionally gives (recorded as information on real traces, not demanded)
PerProcIncreasing == \A p \in Procs : \A i \in 1..(Len(got[p]) - 1) : got[p][i] < got[p][i + 1]
GapFree == Issued = 2..(1 + Total)
=============================================================================
