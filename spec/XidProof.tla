------------------------------ MODULE XidProof ------------------------------
(* Unbounded proof (TLAPS) of the design-level half of C14 for the atomic    *)
(* generator: for any set of drawers and any number of draws, the ids issued *)
(* by fetch-and-add are pairwise distinct (as long as the counter does not   *)
(* wrap, which the model's unbounded integers express).                      *)
EXTENDS XidCore, TLAPS
ASSUME AtomicAssumption == Atomic = TRUE
DistinctPW == \A p, q \in Procs : \A i \in DOMAIN got[p] : \A j \in DOMAIN got[q] :
                 (p # q \/ i # j) => got[p][i] # got[q][j]
TypeOK == /\ counter \in Int
          /\ got \in [Procs -> Seq(Int)]
Below == \A p \in Procs : \A i \in DOMAIN got[p] : got[p][i] <= counter
IndInv == TypeOK /\ Below /\ DistinctPW

LEMMA InitInv == Init => IndInv
  BY DEF Init, IndInv, TypeOK, Below, DistinctPW

LEMMA StepInv == IndInv /\ [Next]_vars => IndInv'
<1> SUFFICES ASSUME IndInv, [Next]_vars PROVE IndInv'
  OBVIOUS
<1>1. CASE UNCHANGED vars
  BY <1>1 DEF vars, IndInv, TypeOK, Below, DistinctPW
<1>2. ASSUME NEW p \in Procs, Draw(p) PROVE IndInv'
  <2>1. counter' = counter + 1 /\ got' = [got EXCEPT ![p] = Append(got[p], counter + 1)]
    BY <1>2 DEF Draw
  <2>2. TypeOK'
    BY <2>1 DEF IndInv, TypeOK
  <2>3. \A q \in Procs : DOMAIN got'[q] = IF q = p THEN 1..(Len(got[p]) + 1) ELSE DOMAIN got[q]
    BY <2>1 DEF IndInv, TypeOK
  <2>4. \A q \in Procs : \A i \in DOMAIN got'[q] :
            got'[q][i] = IF q = p /\ i = Len(got[p]) + 1 THEN counter + 1 ELSE got[q][i]
    BY <2>1 DEF IndInv, TypeOK
  <2>5. \A q \in Procs : \A i \in DOMAIN got'[q] : (q = p /\ i = Len(got[p]) + 1) \/ i \in DOMAIN got[q]
    BY <2>3 DEF IndInv, TypeOK
  <2>6. Below'
    BY <2>1, <2>4, <2>5 DEF IndInv, TypeOK, Below
  <2>7. DistinctPW'
    BY <2>1, <2>4, <2>5 DEF IndInv, TypeOK, Below, DistinctPW
  <2> QED BY <2>2, <2>6, <2>7 DEF IndInv
<1>3. ASSUME NEW p \in Procs, DrawRead(p) PROVE IndInv'
  BY <1>3, AtomicAssumption DEF DrawRead
<1>4. ASSUME NEW p \in Procs, DrawWrite(p) PROVE IndInv'
  BY <1>4, AtomicAssumption DEF DrawWrite
<1> QED BY <1>1, <1>2, <1>3, <1>4 DEF Next

THEOREM Safety == Spec => []DistinctPW
<1>1. IndInv => DistinctPW
  BY DEF IndInv
<1> QED BY InitInv, StepInv, <1>1, PTL DEF Spec
=============================================================================
