---------------------------- MODULE RegistryTrace ----------------------------
(* Judge for C15.                                                             *)
EXTENDS Registry
CONSTANT TraceFile
Trace == ndJsonDeserialize(TraceFile)
VARIABLES l, done
vars == <<l, done>>
Has(r, f) == f \in DOMAIN r

Matches(name, m, r) ==
       /\ r.class = ClassOf(name) /\ r.field = FieldOf(name) /\ r.hasmask = (m = 1)
       /\ (WidthOf(name) = 0 \/ r.length = WidthOf(name) * (1 + m))
HeaderOK(name, m, r) ==      \* r = what one lookup returned
  /\ Has(r, "err")
  /\ IF name \in Names \ Optional THEN ~r.err /\ Matches(name, m, r)
     ELSE IF name \in Optional THEN r.err \/ Matches(name, m, r)
     ELSE r.err
LookupChecks(e) ==
  LET o == e.obs IN
  IF ~(Has(o, "first") /\ Has(o, "again")) THEN << <<"no panic", FALSE>> >>
  ELSE
  << <<"lookup result (class, field, width, mask flag)", HeaderOK(e.name, e.mask, o.first)>>,
     <<"lookup after mutating an earlier result", HeaderOK(e.name, e.mask, o.again)>>,
     <<"lookup with the other mask setting afterwards", HeaderOK(e.name, 1 - e.mask, o.other)>> >>
PackChecks(e) ==
  LET o == e.obs IN
  IF ~(Has(o, "word") /\ Has(o, "un")) THEN << <<"no panic", FALSE>> >>
  ELSE
  << <<"pack", o.word = e.word>>,
     <<"unpack of the specification's word",
        /\ o.un.class = e.class /\ o.un.field = e.field /\ o.un.hasmask = (e.mask = 1) /\ o.un.length = e.len>> >>
ConcChecks(e) ==
  LET o == e.obs IN
  << <<"concurrent lookups equal sequential lookups", Has(o, "mismatches") /\ o.mismatches = 0>>,
     <<"no data race reported", Has(o, "races") /\ o.races = 0>> >>
SweepChecks(e) ==
  << <<"pack(unpack(w)) = w for every swept word", "mismatches" \in DOMAIN e.obs /\ e.obs.mismatches = 0 /\ e.obs.count = e.count>> >>
Checks(e) == CASE e.k = "lookup" -> LookupChecks(e) [] e.k = "pack" -> PackChecks(e)
               [] e.k = "conc" -> ConcChecks(e) [] e.k = "sweep" -> SweepChecks(e)
Failed(e) == LET cs == Checks(e) IN {i \in DOMAIN cs : ~cs[i][2]}
Init == l \in 1..Len(Trace) /\ done = FALSE
Judge == /\ ~done /\ done' = TRUE /\ UNCHANGED l
         /\ LET e == Trace[l]  bad == Failed(e) IN
              IF bad = {} THEN TRUE
              ELSE LET i == CHOOSE j \in bad : \A k \in bad : j <= k IN
                   PrintT(ToJson([reject |-> l, id |-> e.id, pred |-> Checks(e)[i][1],
                                  scenario |-> [x \in DOMAIN e \ {"obs"} |-> e[x]], obs |-> e.obs]))
Next == Judge
Spec == Init /\ [][Next]_vars
=============================================================================
