----------------------------- MODULE OfBaseTrace -----------------------------
(* Judge for C19.                                                            *)
EXTENDS OfBase
CONSTANT TraceFile
Trace == ndJsonDeserialize(TraceFile)
VARIABLES l, done
vars == <<l, done>>
Has(r, f) == f \in DOMAIN r

EncChecks(e) ==
  LET ops == e.ops  o == e.obs  n == Len(ops) IN
  IF ~(Has(o, "bytes") /\ Has(o, "lens") /\ Has(o, "dec")) THEN << <<"no panic", FALSE>> >>
  ELSE
  << <<"encoder bytes",  o.bytes = EncPrefix(ops, n)>>,
     <<"encoder length after each write", Len(o.lens) = n /\ \A k \in 1..n : o.lens[k] = Len(EncPrefix(ops, k))>>,
     <<"decoder returns written values in order",
        Len(o.dec) = n /\ \A k \in 1..n : ops[k][1] = "align" \/ o.dec[k][1] = ops[k][2]>>,
     <<"decoder position advances by the width / to the 8-byte boundary",
        Len(o.dec) = n /\ \A k \in 1..n : o.dec[k][2] = Len(EncPrefix(ops, k))>> >>
DecChecks(e) ==
  LET o == e.obs  exp == DecRun(e.n, InitStack(e.n), e.ops, 1) IN
  IF ~Has(o, "steps") THEN << <<"no panic", FALSE>> >>
  ELSE
  << <<"offset after each op",      Len(o.steps) = Len(exp) /\ \A k \in 1..Len(exp) : o.steps[k][1] = exp[k][1]>>,
     <<"base offset (message start) of sliced decoders", Len(o.steps) = Len(exp) /\ \A k \in 1..Len(exp) : o.steps[k][2] = exp[k][2]>>,
     <<"remaining length",          Len(o.steps) = Len(exp) /\ \A k \in 1..Len(exp) : o.steps[k][3] = exp[k][3]>>,
     <<"value read",                Len(o.steps) = Len(exp) /\ \A k \in 1..Len(exp) : o.steps[k][4] = exp[k][4]>>,
     <<"unread rest of the frame (Bytes)", Len(o.steps) = Len(exp) /\ \A k \in 1..Len(exp) : o.steps[k][5] = exp[k][5]>> >>
HdrChecks(e) ==
  LET o == e.obs  m == Msg(e.n)  rem == e.n - e.pre IN
  << <<"no panic on short header", ~Has(o, "panic")>>,
     <<"error iff fewer than 8 bytes", Has(o, "err") /\ (o.err <=> rem < 8)>>,
     <<"header fields", rem < 8 \/ (Has(o, "fields") /\ o.fields = Sub(m, e.pre + 1, 8) /\ o.off = e.pre + 8)>> >>
Checks(e) == CASE e.k = "enc" -> EncChecks(e) [] e.k = "dec" -> DecChecks(e) [] e.k = "hdr" -> HdrChecks(e)
Failed(e) == LET cs == Checks(e) IN {i \in DOMAIN cs : ~cs[i][2]}

Init == l \in 1..Len(Trace) /\ done = FALSE
Judge == /\ ~done /\ done' = TRUE /\ UNCHANGED l
         /\ LET e == Trace[l]  bad == Failed(e) IN
              IF bad = {} THEN TRUE
              ELSE LET i == CHOOSE j \in bad : \A k \in bad : j <= k IN
                   PrintT(ToJson([reject |-> l, id |-> e.id, pred |-> Checks(e)[i][1],
                                  scenario |-> [x \in DOMAIN e \ {"obs"} |-> e[x]], obs |-> e.obs]))
Next == Judge
Spec == Init /\ [][Next]_vars
=============================================================================
