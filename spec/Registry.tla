------------------------------ MODULE Registry ------------------------------
(* The match-field registry: OVS field name |-> (OXM class, field number,    *)
(* payload width in bytes).  Transcribed from the OpenFlow 1.3.5 switch      *)
(* specification (Table 11/12; 1.4/1.5 numbers for PBB_UCA, TCP_FLAGS,       *)
(* ACTSET_OUTPUT) and from Open vSwitch meta-flow.h / nicira-ext.h --        *)
(* NOT from the library.  Width 0 marks a variable-length field              *)
(* (tun_metadataN: 4..124 bytes), whose width is not asserted.               *)
(* The table may hold names an implementation does not register: the lookup  *)
(* judge (RegistryTrace) only constrains lookups that succeed or names that  *)
(* are in nobody's table.                                                    *)
EXTENDS Bytes, TLC, Json
Rows == <<
  <<"NXM_OF_IN_PORT", 0, 0, 2>>,
  <<"NXM_OF_ETH_DST", 0, 1, 6>>,
  <<"NXM_OF_ETH_SRC", 0, 2, 6>>,
  <<"NXM_OF_ETH_TYPE", 0, 3, 2>>,
  <<"NXM_OF_VLAN_TCI", 0, 4, 2>>,
  <<"NXM_OF_IP_TOS", 0, 5, 1>>,
  <<"NXM_OF_IP_PROTO", 0, 6, 1>>,
  <<"NXM_OF_IP_SRC", 0, 7, 4>>,
  <<"NXM_OF_IP_DST", 0, 8, 4>>,
  <<"NXM_OF_TCP_SRC", 0, 9, 2>>,
  <<"NXM_OF_TCP_DST", 0, 10, 2>>,
  <<"NXM_OF_UDP_SRC", 0, 11, 2>>,
  <<"NXM_OF_UDP_DST", 0, 12, 2>>,
  <<"NXM_OF_ICMP_TYPE", 0, 13, 1>>,
  <<"NXM_OF_ICMP_CODE", 0, 14, 1>>,
  <<"NXM_OF_ARP_OP", 0, 15, 2>>,
  <<"NXM_OF_ARP_SPA", 0, 16, 4>>,
  <<"NXM_OF_ARP_TPA", 0, 17, 4>>,
  <<"NXM_NX_REG0", 1, 0, 4>>,
  <<"NXM_NX_REG1", 1, 1, 4>>,
  <<"NXM_NX_REG2", 1, 2, 4>>,
  <<"NXM_NX_REG3", 1, 3, 4>>,
  <<"NXM_NX_REG4", 1, 4, 4>>,
  <<"NXM_NX_REG5", 1, 5, 4>>,
  <<"NXM_NX_REG6", 1, 6, 4>>,
  <<"NXM_NX_REG7", 1, 7, 4>>,
  <<"NXM_NX_REG8", 1, 8, 4>>,
  <<"NXM_NX_REG9", 1, 9, 4>>,
  <<"NXM_NX_REG10", 1, 10, 4>>,
  <<"NXM_NX_REG11", 1, 11, 4>>,
  <<"NXM_NX_REG12", 1, 12, 4>>,
  <<"NXM_NX_REG13", 1, 13, 4>>,
  <<"NXM_NX_REG14", 1, 14, 4>>,
  <<"NXM_NX_REG15", 1, 15, 4>>,
  <<"NXM_NX_TUN_ID", 1, 16, 8>>,
  <<"NXM_NX_ARP_SHA", 1, 17, 6>>,
  <<"NXM_NX_ARP_THA", 1, 18, 6>>,
  <<"NXM_NX_IPV6_SRC", 1, 19, 16>>,
  <<"NXM_NX_IPV6_DST", 1, 20, 16>>,
  <<"NXM_NX_ICMPV6_TYPE", 1, 21, 1>>,
  <<"NXM_NX_ICMPV6_CODE", 1, 22, 1>>,
  <<"NXM_NX_ND_TARGET", 1, 23, 16>>,
  <<"NXM_NX_ND_SLL", 1, 24, 6>>,
  <<"NXM_NX_ND_TLL", 1, 25, 6>>,
  <<"NXM_NX_IP_FRAG", 1, 26, 1>>,
  <<"NXM_NX_IPV6_LABEL", 1, 27, 4>>,
  <<"NXM_NX_IP_ECN", 1, 28, 1>>,
  <<"NXM_NX_IP_TTL", 1, 29, 1>>,
  <<"NXM_NX_MPLS_TTL", 1, 30, 1>>,
  <<"NXM_NX_TUN_IPV4_SRC", 1, 31, 4>>,
  <<"NXM_NX_TUN_IPV4_DST", 1, 32, 4>>,
  <<"NXM_NX_PKT_MARK", 1, 33, 4>>,
  <<"NXM_NX_TCP_FLAGS", 1, 34, 2>>,
  <<"NXM_NX_DP_HASH", 1, 35, 4>>,
  <<"NXM_NX_RECIRC_ID", 1, 36, 4>>,
  <<"NXM_NX_CONJ_ID", 1, 37, 4>>,
  <<"NXM_NX_TUN_GBP_ID", 1, 38, 2>>,
  <<"NXM_NX_TUN_GBP_FLAGS", 1, 39, 1>>,
  <<"NXM_NX_TUN_METADATA0", 1, 40, 0>>,
  <<"NXM_NX_TUN_METADATA1", 1, 41, 0>>,
  <<"NXM_NX_TUN_METADATA2", 1, 42, 0>>,
  <<"NXM_NX_TUN_METADATA3", 1, 43, 0>>,
  <<"NXM_NX_TUN_METADATA4", 1, 44, 0>>,
  <<"NXM_NX_TUN_METADATA5", 1, 45, 0>>,
  <<"NXM_NX_TUN_METADATA6", 1, 46, 0>>,
  <<"NXM_NX_TUN_METADATA7", 1, 47, 0>>,
  <<"NXM_NX_TUN_FLAGS", 1, 104, 2>>,
  <<"NXM_NX_CT_STATE", 1, 105, 4>>,
  <<"NXM_NX_CT_ZONE", 1, 106, 2>>,
  <<"NXM_NX_CT_MARK", 1, 107, 4>>,
  <<"NXM_NX_CT_LABEL", 1, 108, 16>>,
  <<"NXM_NX_TUN_IPV6_SRC", 1, 109, 16>>,
  <<"NXM_NX_TUN_IPV6_DST", 1, 110, 16>>,
  <<"NXM_NX_XXREG0", 1, 111, 16>>,
  <<"NXM_NX_XXREG1", 1, 112, 16>>,
  <<"NXM_NX_XXREG2", 1, 113, 16>>,
  <<"NXM_NX_XXREG3", 1, 114, 16>>,
  <<"NXM_NX_CT_NW_PROTO", 1, 119, 1>>,
  <<"NXM_NX_CT_NW_SRC", 1, 120, 4>>,
  <<"NXM_NX_CT_NW_DST", 1, 121, 4>>,
  <<"NXM_NX_CT_IPV6_SRC", 1, 122, 16>>,
  <<"NXM_NX_CT_IPV6_DST", 1, 123, 16>>,
  <<"NXM_NX_CT_TP_SRC", 1, 124, 2>>,
  <<"NXM_NX_CT_TP_DST", 1, 125, 2>>,
  <<"OXM_OF_IN_PORT", 32768, 0, 4>>,
  <<"OXM_OF_IN_PHY_PORT", 32768, 1, 4>>,
  <<"OXM_OF_METADATA", 32768, 2, 8>>,
  <<"OXM_OF_ETH_DST", 32768, 3, 6>>,
  <<"OXM_OF_ETH_SRC", 32768, 4, 6>>,
  <<"OXM_OF_ETH_TYPE", 32768, 5, 2>>,
  <<"OXM_OF_VLAN_VID", 32768, 6, 2>>,
  <<"OXM_OF_VLAN_PCP", 32768, 7, 1>>,
  <<"OXM_OF_IP_DSCP", 32768, 8, 1>>,
  <<"OXM_OF_IP_ECN", 32768, 9, 1>>,
  <<"OXM_OF_IP_PROTO", 32768, 10, 1>>,
  <<"OXM_OF_IPV4_SRC", 32768, 11, 4>>,
  <<"OXM_OF_IPV4_DST", 32768, 12, 4>>,
  <<"OXM_OF_TCP_SRC", 32768, 13, 2>>,
  <<"OXM_OF_TCP_DST", 32768, 14, 2>>,
  <<"OXM_OF_UDP_SRC", 32768, 15, 2>>,
  <<"OXM_OF_UDP_DST", 32768, 16, 2>>,
  <<"OXM_OF_SCTP_SRC", 32768, 17, 2>>,
  <<"OXM_OF_SCTP_DST", 32768, 18, 2>>,
  <<"OXM_OF_ICMPV4_TYPE", 32768, 19, 1>>,
  <<"OXM_OF_ICMPV4_CODE", 32768, 20, 1>>,
  <<"OXM_OF_ARP_OP", 32768, 21, 2>>,
  <<"OXM_OF_ARP_SPA", 32768, 22, 4>>,
  <<"OXM_OF_ARP_TPA", 32768, 23, 4>>,
  <<"OXM_OF_ARP_SHA", 32768, 24, 6>>,
  <<"OXM_OF_ARP_THA", 32768, 25, 6>>,
  <<"OXM_OF_IPV6_SRC", 32768, 26, 16>>,
  <<"OXM_OF_IPV6_DST", 32768, 27, 16>>,
  <<"OXM_OF_IPV6_FLABEL", 32768, 28, 4>>,
  <<"OXM_OF_ICMPV6_TYPE", 32768, 29, 1>>,
  <<"OXM_OF_ICMPV6_CODE", 32768, 30, 1>>,
  <<"OXM_OF_IPV6_ND_TARGET", 32768, 31, 16>>,
  <<"OXM_OF_IPV6_ND_SLL", 32768, 32, 6>>,
  <<"OXM_OF_IPV6_ND_TLL", 32768, 33, 6>>,
  <<"OXM_OF_MPLS_LABEL", 32768, 34, 4>>,
  <<"OXM_OF_MPLS_TC", 32768, 35, 1>>,
  <<"OXM_OF_MPLS_BOS", 32768, 36, 1>>,
  <<"OXM_OF_PBB_ISID", 32768, 37, 3>>,
  <<"OXM_OF_TUNNEL_ID", 32768, 38, 8>>,
  <<"OXM_OF_IPV6_EXTHDR", 32768, 39, 2>>,
  <<"OXM_OF_PBB_UCA", 32768, 41, 1>>,
  <<"OXM_OF_TCP_FLAGS", 32768, 42, 2>>,
  <<"OXM_OF_ACTSET_OUTPUT", 32768, 43, 4>>
>>
Names == {Rows[i][1] : i \in DOMAIN Rows}
\* names of the table that an implementation need not register (the library does not): either an
\* error or the right header is accepted for them; every other name of the table must resolve.
Optional == {"NXM_NX_DP_HASH", "NXM_NX_RECIRC_ID", "OXM_OF_PBB_UCA", "OXM_OF_TCP_FLAGS", "OXM_OF_ACTSET_OUTPUT"}
RowOf(name) == Rows[CHOOSE i \in DOMAIN Rows : Rows[i][1] = name]
ClassOf(name) == RowOf(name)[2]
FieldOf(name) == RowOf(name)[3]
WidthOf(name) == RowOf(name)[4]
UniqueNames == \A i, j \in DOMAIN Rows : Rows[i][1] = Rows[j][1] => i = j
UniqueCodes == \A i, j \in DOMAIN Rows : (Rows[i][2] = Rows[j][2] /\ Rows[i][3] = Rows[j][3]) => i = j
\* (class, field) |-> width, used by the wire-format modules
HasCode(c, f) == \E i \in DOMAIN Rows : Rows[i][2] = c /\ Rows[i][3] = f
WidthByCode(c, f) == Rows[CHOOSE i \in DOMAIN Rows : Rows[i][2] = c /\ Rows[i][3] = f][4]

\* 32-bit header word: class(16) | field(7) | hasmask(1) | length(8), as four bytes
Pack(c, f, m, len) == BE16(c) \o << (f * 2 + m) % 256, len >>
UnpackClass(w) == B16(w, 1)
UnpackField(w) == w[3] \div 2
UnpackMask(w) == w[3] % 2
UnpackLen(w) == w[4]
=============================================================================
