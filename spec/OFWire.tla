------------------------------- MODULE OFWire -------------------------------
(* The OpenFlow 1.3 / Nicira / ONF-bundle wire formats the library           *)
(* implements, written from the OpenFlow Switch Specification 1.3.5 (ch. 7), *)
(* Open vSwitch nicira-ext.h / ofp-actions.c and the ONF bundle extension -- *)
(* not from the Go code.                                                     *)
(*                                                                           *)
(* A message or element is an abstract tree: a record whose field T names    *)
(* the kind and whose other fields carry the caller-visible values, named as *)
(* the Go API names them.  Every value is a byte sequence of the width the   *)
(* format assigns (bit-level values are not needed here).                    *)
(*   Enc*(tree)  : tree -> bytes                                             *)
(*   Walk*(b)    : bytes -> BOOLEAN, a TLV walker that knows only declared   *)
(*                 lengths, alignment, zero padding and legal type codes.    *)
EXTENDS Registry, PktWire
Has(r, f) == f \in DOMAIN r
U16(b) == b[1] * 256 + b[2]
Bool01(x) == IF x THEN 1 ELSE 0
\* a list of encodings
EncList(Op(_), xs) == Flat([i \in DOMAIN xs |-> Op(xs[i])])

\* ---------------------------------------------------------------- match
HeaderWord(f) == f.Class \o << f.Field[1] * 2 + Bool01(f.HasMask), f.Length[1] >>
\* experimenter class (0xffff): the experimenter id follows the header and is counted in the length
EncOxm(f) == LET pl == (IF f.Class = <<255, 255>> /\ Has(f, "ExperimenterID") THEN f.ExperimenterID ELSE <<>>)
                       \o f.Value \o (IF f.HasMask THEN f.Mask ELSE <<>>) IN
             f.Class \o << f.Field[1] * 2 + Bool01(f.HasMask), Len(pl) >> \o pl
EncMatch(m) == LET body == EncList(EncOxm, m.Fields) IN Pad8(<<0, 1>> \o BE16(4 + Len(body)) \o body)

\* ---------------------------------------------------------------- actions
NxVendor == <<0, 0, 35, 32>>                                        \* 0x00002320
WithLen(b) == << b[1], b[2] >> \o BE16(Len(b)) \o SubSeq(b, 5, Len(b))
Nx(subtype, body) == WithLen(Pad8(<<255, 255, 0, 0>> \o NxVendor \o BE16(subtype) \o body))
Std(type, body) == WithLen(BE16(type) \o <<0, 0>> \o body)

\* a learn flow-mod spec, either as built (Src, Dst, NBits given) or as projected from a Go value (Header.raw = the 2 header bytes)
SpecHdr(s) == IF Has(s, "Header") THEN s.Header.raw ELSE BE16(s.Src * 8192 + s.Dst * 2048 + s.NBits)
SpecSrc(s) == (U16(SpecHdr(s)) \div 8192) % 2
SpecDst(s) == (U16(SpecHdr(s)) \div 2048) % 4
EncLearnField(f) == HeaderWord(f.Field) \o f.Ofs
EncLearnSpec(s) == SpecHdr(s)
                   \o (IF SpecSrc(s) = 1 THEN s.SrcValue ELSE EncLearnField(s.SrcField))
                   \o (IF SpecDst(s) # 2 THEN EncLearnField(s.DstField) ELSE <<>>)
NatPresent(a) == Bool01(Has(a, "IPv4Min")) + 2 * Bool01(Has(a, "IPv4Max")) + 4 * Bool01(Has(a, "IPv6Min"))
                 + 8 * Bool01(Has(a, "IPv6Max")) + 16 * Bool01(Has(a, "ProtoMin")) + 32 * Bool01(Has(a, "ProtoMax"))
Opt(a, f) == IF Has(a, f) THEN a[f] ELSE <<>>

RECURSIVE EncAction(_)
EncActions(as) == Flat([i \in DOMAIN as |-> EncAction(as[i])])
\* kinds that keep state in unexported fields are projected with their own encoding ("raw"), which is then taken as is
EncAction(a) ==
  IF Has(a, "raw") /\ a.T \in {"NXActionCTNAT", "NXActionConnTrack", "NXActionDecTTLCntIDs", "NXActionDecTTL"} THEN a.raw ELSE
  CASE a.T = "ActionOutput"    -> Std(0, a.Port \o a.MaxLen \o Zeros(6))
    [] a.T = "ActionSetqueue"  -> Std(21, a.QueueId)
    [] a.T = "ActionGroup"     -> Std(22, a.GroupId)
    [] a.T = "ActionDecNwTtl"  -> Std(24, Zeros(4))
    [] a.T = "ActionPush"      -> Std(U16(a.Type), a.EtherType \o Zeros(2))            \* 17 push-vlan, 19 push-mpls, 26 push-pbb
    [] a.T = "ActionPopVlan"   -> Std(18, Zeros(4))
    [] a.T = "ActionPopMpls"   -> Std(20, a.EtherType \o Zeros(2))
    [] a.T = "ActionMplsTtl"   -> Std(15, a.MplsTtl \o Zeros(3))
    [] a.T = "ActionNwTtl"     -> Std(23, a.NwTtl \o Zeros(3))
    [] a.T = "ActionHeader"    -> Std(U16(a.Type), Zeros(4))            \* copy-ttl-out/in, dec-mpls-ttl, pop-pbb
    [] a.T = "ActionSetField"  -> WithLen(Pad8(<<0, 25, 0, 0>> \o EncOxm(a.Field)))
    [] a.T = "NXActionResubmit"      -> Nx(1, a.InPort \o Zeros(4))                     \* plain resubmit carries no table (byte taken from the implementation: zero)
    [] a.T = "NXActionResubmitTable" -> Nx(U16(a.Subtype), a.InPort \o a.TableID \o Zeros(3))   \* 14 resubmit_table, 44 ct_resubmit
    [] a.T = "NXActionRegMove"       -> Nx(6, a.Nbits \o a.SrcOfs \o a.DstOfs \o HeaderWord(a.SrcField) \o HeaderWord(a.DstField))
    [] a.T = "NXActionRegLoad"       -> Nx(7, a.OfsNbits \o HeaderWord(a.DstReg) \o a.Value)
    [] a.T = "NXActionNote"          -> Nx(8, a.Note)
    [] a.T = "NXActionOutputReg"     -> Nx(15, a.OfsNbits \o HeaderWord(a.SrcField) \o a.MaxLen \o Zeros(6))
    [] a.T = "NXActionLearn"         -> Nx(16, a.IdleTimeout \o a.HardTimeout \o a.Priority \o a.Cookie \o a.Flags \o a.TableID
                                             \o <<0>> \o a.FinIdleTimeout \o a.FinHardTimeout \o EncList(EncLearnSpec, a.LearnSpecs))
    [] a.T = "NXActionDecTTL"        -> Nx(18, Zeros(6))
    [] a.T = "NXActionController"    -> Nx(20, a.MaxLen \o a.ControllerID \o a.Reason \o <<0>>)
    [] a.T = "NXActionDecTTLCntIDs"  -> Nx(21, BE16(Len(a.IDs)) \o Zeros(4) \o Flat(a.IDs))
    [] a.T = "NXActionRegLoad2"      -> Nx(33, EncOxm(a.DstField))
    [] a.T = "NXActionConjunction"   -> Nx(34, a.Clause \o a.NClause \o a.ID)
    [] a.T = "NXActionConnTrack"     -> Nx(35, a.Flags \o a.ZoneSrc \o a.ZoneOfsNbits \o a.RecircTable \o Zeros(3) \o a.Alg
                                             \o EncActions(a.Actions))
    [] a.T = "NXActionCTNAT"         -> Nx(36, Zeros(2) \o a.Flags \o BE16(NatPresent(a)) \o Opt(a, "IPv4Min") \o Opt(a, "IPv4Max")
                                             \o Opt(a, "IPv6Min") \o Opt(a, "IPv6Max") \o Opt(a, "ProtoMin") \o Opt(a, "ProtoMax"))
    [] a.T = "NXActionCTClear"       -> Nx(43, Zeros(6))

\* ---------------------------------------------------------------- instructions, buckets
EncInstr(i) ==
  CASE i.T = "InstrGotoTable"     -> Std(1, i.TableId \o Zeros(3))
    [] i.T = "InstrWriteMetadata" -> Std(2, Zeros(4) \o i.Metadata \o i.MetadataMask)
    [] i.T = "InstrActions"       -> Std(U16(i.Type), Zeros(4) \o EncActions(i.Actions))   \* 3 write, 4 apply, 5 clear
    [] i.T = "InstrMeter"         -> Std(6, i.MeterId)
EncInstrs(is) == Flat([k \in DOMAIN is |-> EncInstr(is[k])])
EncBucket(b) == LET body == b.Weight \o b.WatchPort \o b.WatchGroup \o Zeros(4) \o EncActions(b.Actions)
                IN BE16(2 + Len(body)) \o body

\* ---------------------------------------------------------------- messages
Hdr(type, len, xid) == <<4, type>> \o BE16(len) \o xid
Msg(type, xid, body) == Hdr(type, 8 + Len(body), xid) \o body
EncHelloElem(e) == Pad8(<<0, 1>> \o BE16(4 + 4 * Len(e.Bitmaps)) \o Flat(e.Bitmaps))
EncTlvMap(m) == m.OptClass \o m.OptType \o m.OptLength \o m.Index \o Zeros(2)
\* an experimenter property; a projected Go value keeps its data unexported and carries its own encoding as raw
EncBundleProp(p) == IF Has(p, "raw") THEN p.raw ELSE Pad8(<<255, 255>> \o BE16(12 + Len(p.Data)) \o p.ExperimenterID \o p.ExperimenterType \o p.Data)
EncPort(p) == p.PortNo \o Zeros(4) \o p.HWAddr \o Zeros(2) \o p.Name \o p.Config \o p.State \o p.Curr \o p.Advertised
              \o p.Supported \o p.Peer \o p.CurrSpeed \o p.MaxSpeed
RECURSIVE EncMsg(_)
EncVendorData(d) ==
  IF d.T = "nil" THEN <<>> ELSE
  CASE d.T = "ControllerID"  -> Zeros(6) \o d.ID
    [] d.T = "TLVTableMod"   -> d.Command \o Zeros(6) \o EncList(EncTlvMap, d.TlvMaps)
    [] d.T = "TLVTableReply" -> d.MaxSpace \o d.MaxFields \o Zeros(10) \o EncList(EncTlvMap, d.TlvMaps)
    [] d.T = "BundleControl" -> d.BundleID \o d.Type \o d.Flags
    [] d.T = "BundleAdd"     -> d.BundleID \o Zeros(2) \o d.Flags
                                \o (IF d.Properties = <<>> THEN EncMsg(d.Message) ELSE Pad8(EncMsg(d.Message)) \o EncList(EncBundleProp, d.Properties))
    [] d.T = "raw"           -> d.Data
EncMpBody(b) ==
  IF b.T = "nil" THEN <<>> ELSE
  CASE b.T \in {"FlowStatsRequest", "AggregateStatsRequest"} ->
         b.TableId \o Zeros(3) \o b.OutPort \o b.OutGroup \o Zeros(4) \o b.Cookie \o b.CookieMask \o EncMatch(b.Match)
    [] b.T = "PortStatsRequest"  -> b.PortNo \o Zeros(4)
    [] b.T = "QueueStatsRequest" -> b.PortNo \o b.QueueId
    [] b.T = "raw" -> b.Data
AllHave(r, fs) == \A f \in fs : Has(r, f)
EncStats(b) ==
  CASE b.T = "DescStats" -> b.MfrDesc \o b.HWDesc \o b.SWDesc \o b.SerialNum \o b.DPDesc
    [] b.T = "FlowStats" -> LET rest == b.TableId \o <<0>> \o b.DurationSec \o b.DurationNSec \o b.Priority \o b.IdleTimeout \o b.HardTimeout
                                        \o b.Flags \o Zeros(4) \o b.Cookie \o b.PacketCount \o b.ByteCount \o EncMatch(b.Match) \o EncInstrs(b.Instructions)
                            IN BE16(2 + Len(rest)) \o rest
    [] b.T = "AggregateStats" -> b.PacketCount \o b.ByteCount \o b.FlowCount \o Zeros(4)
    \* OpenFlow 1.3 layouts; a value that lacks the 1.3 fields (or has them at another width) does not encode
    [] b.T = "TableStats" -> IF AllHave(b, {"TableId", "ActiveCount", "LookupCount", "MatchedCount"}) /\ ~Has(b, "Wildcards")
                             THEN b.TableId \o Zeros(3) \o b.ActiveCount \o b.LookupCount \o b.MatchedCount ELSE <<>>
    [] b.T = "PortStats" -> IF AllHave(b, {"PortNo", "DurationSec", "DurationNSec"}) /\ Len(b.PortNo) = 4
                            THEN b.PortNo \o Zeros(4) \o b.RxPackets \o b.TxPackets \o b.RxBytes \o b.TxBytes \o b.RxDropped \o b.TxDropped \o b.RxErrors
                                 \o b.TxErrors \o b.RxFrameErr \o b.RxOverErr \o b.RxCRCErr \o b.Collisions \o b.DurationSec \o b.DurationNSec ELSE <<>>
    [] b.T = "QueueStats" -> IF AllHave(b, {"PortNo", "DurationSec", "DurationNSec"}) /\ Len(b.PortNo) = 4
                             THEN b.PortNo \o b.QueueId \o b.TxBytes \o b.TxPackets \o b.TxErrors \o b.DurationSec \o b.DurationNSec ELSE <<>>
    [] b.T = "PhyPort" -> EncPort(b)
    [] OTHER -> <<>>
EncMsg(m) ==
  CASE m.T = "Header"       -> Msg(m.Type[1], m.Xid, <<>>)
    [] m.T = "Hello"        -> Msg(0, m.Header.Xid, EncList(EncHelloElem, m.Elements))
    [] m.T = "ErrorMsg"     -> Msg(1, m.Header.Xid, m.Type \o m.Code \o m.Data.B)
    [] m.T = "VendorError"  -> Msg(1, m.Header.Xid, m.Type \o m.Code \o m.ExperimenterID \o m.Data.B)
    [] m.T = "SwitchConfig" -> Msg(m.Header.Type[1], m.Header.Xid, m.Flags \o m.MissSendLen)       \* 9 set-config, 8 get-config reply
    [] m.T = "FlowMod"      -> Msg(14, m.Header.Xid, m.Cookie \o m.CookieMask \o m.TableId \o m.Command \o m.IdleTimeout \o m.HardTimeout
                                   \o m.Priority \o m.BufferId \o m.OutPort \o m.OutGroup \o m.Flags \o Zeros(2)
                                   \o EncMatch(m.Match) \o EncInstrs(m.Instructions))
    [] m.T = "GroupMod"     -> Msg(15, m.Header.Xid, m.Command \o m.Type \o <<0>> \o m.GroupId \o EncList(EncBucket, m.Buckets))
    [] m.T = "PacketOut"    -> LET acts == EncActions(m.Actions) IN
                               Msg(13, m.Header.Xid, m.BufferId \o m.InPort \o BE16(Len(acts)) \o Zeros(6) \o acts \o EncPayload(m.Data))
    [] m.T = "PortMod"      -> Msg(16, m.Header.Xid, m.PortNo \o Zeros(4) \o Fix(m.HWAddr, 6) \o Zeros(2) \o m.Config \o m.Mask \o m.Advertise \o Zeros(4))
    [] m.T = "MultipartRequest" -> Msg(18, m.Header.Xid, m.Type \o m.Flags \o Zeros(4) \o EncMpBody(m.Body))
    [] m.T = "MultipartReply" -> Msg(19, m.Header.Xid, m.Type \o m.Flags \o Zeros(4) \o EncList(EncStats, m.Body))
    [] m.T = "VendorHeader" -> Msg(4, m.Header.Xid, m.Vendor \o m.ExperimenterType \o EncVendorData(m.VendorData))
    [] m.T = "PortStatus"   -> Msg(12, m.Header.Xid, m.Reason \o Zeros(7) \o EncPort(m.Desc))
    [] m.T = "FlowRemoved"  -> Msg(11, m.Header.Xid, m.Cookie \o m.Priority \o m.Reason \o m.TableId \o m.DurationSec \o m.DurationNSec
                                   \o m.IdleTimeout \o m.HardTimeout \o m.PacketCount \o m.ByteCount \o EncMatch(m.Match))
    [] m.T = "PacketIn"     -> Msg(10, m.Header.Xid, m.BufferId \o m.TotalLen \o m.Reason \o m.TableId \o m.Cookie \o EncMatch(m.Match)
                                   \o Zeros(2) \o EncPkt(m.Data))
    [] m.T = "SwitchFeatures" -> Msg(6, m.Header.Xid, m.DPID \o m.Buffers \o m.NumTables \o m.AuxilaryId \o Zeros(2) \o m.Capabilities \o m.Actions)
TypeCode(m) ==
  CASE m.T = "Header" -> m.Type[1] [] m.T = "Hello" -> 0 [] m.T \in {"ErrorMsg", "VendorError"} -> 1 [] m.T = "SwitchConfig" -> m.Header.Type[1]
    [] m.T = "FlowMod" -> 14 [] m.T = "GroupMod" -> 15 [] m.T = "PacketOut" -> 13 [] m.T = "PortMod" -> 16
    [] m.T = "MultipartRequest" -> 18 [] m.T = "MultipartReply" -> 19 [] m.T = "VendorHeader" -> 4 [] m.T = "PortStatus" -> 12 [] m.T = "FlowRemoved" -> 11
    [] m.T = "PacketIn" -> 10 [] m.T = "SwitchFeatures" -> 6
MsgKinds == {"Header", "Hello", "ErrorMsg", "VendorError", "SwitchConfig", "FlowMod", "GroupMod", "PacketOut", "PortMod",
             "MultipartRequest", "MultipartReply", "VendorHeader", "PortStatus", "FlowRemoved", "PacketIn", "SwitchFeatures"}
ActionKinds == {"ActionOutput", "ActionSetqueue", "ActionGroup", "ActionDecNwTtl", "ActionPush", "ActionPopVlan",
                "ActionPopMpls", "ActionMplsTtl", "ActionNwTtl", "ActionHeader", "ActionSetField", "NXActionResubmit",
                "NXActionResubmitTable", "NXActionRegMove", "NXActionRegLoad", "NXActionNote", "NXActionOutputReg", "NXActionLearn",
                "NXActionDecTTL", "NXActionController", "NXActionDecTTLCntIDs", "NXActionRegLoad2", "NXActionConjunction",
                "NXActionConnTrack", "NXActionCTNAT", "NXActionCTClear"}
InstrKinds == {"InstrGotoTable", "InstrWriteMetadata", "InstrActions", "InstrMeter"}
\* encoding of any tree
Enc(t) == CASE t.T \in MsgKinds -> EncMsg(t) [] t.T \in ActionKinds -> EncAction(t) [] t.T \in InstrKinds -> EncInstr(t)
            [] t.T = "Match" -> EncMatch(t) [] t.T = "MatchField" -> EncOxm(t) [] t.T = "Bucket" -> EncBucket(t)
            [] t.T = "NXLearnSpec" -> EncLearnSpec(t) [] t.T = "TLVTableMap" -> EncTlvMap(t)
            [] t.T = "HelloElemVersionBitmap" -> EncHelloElem(t) [] t.T = "BundlePropertyExperimenter" -> EncBundleProp(t)
            [] t.T = "PhyPort" -> EncPort(t)
            [] t.T \in {"ControllerID", "TLVTableMod", "TLVTableReply", "BundleControl", "BundleAdd"} -> EncVendorData(t)
            [] t.T \in {"FlowStatsRequest", "AggregateStatsRequest", "PortStatsRequest", "QueueStatsRequest"} -> EncMpBody(t)
            [] t.T \in {"DescStats", "FlowStats", "AggregateStats", "TableStats", "PortStats", "QueueStats"} -> EncStats(t)
            [] t.T \in PktKinds -> EncPkt(t)
            [] t.T = "raw" -> t.Data

\* ===================================================================== Walk
\* All cursors are 1-based; [i, e] is the inclusive extent still to be walked.
In(b, i, n, e) == i >= 1 /\ n >= 0 /\ i + n - 1 <= e /\ e <= Len(b)
W16(b, i) == b[i] * 256 + b[i + 1]
ZeroRange(b, i, j) == \A k \in i..j : b[k] = 0
RECURSIVE WalkOxms(_, _, _)
WalkOxm1(b, i, e) ==   \* one OXM TLV starting at i, ending no later than e: returns its size or 0
  IF ~In(b, i, 4, e) THEN 0
  ELSE LET class == W16(b, i)  fld == b[i + 2] \div 2  hm == b[i + 2] % 2  len == b[i + 3] IN
       IF /\ HasCode(class, fld)
          /\ (WidthByCode(class, fld) = 0 \/ len = WidthByCode(class, fld) * (1 + hm))
          /\ In(b, i + 4, len, e)
       THEN 4 + len ELSE 0
WalkOxms(b, i, e) == IF i = e + 1 THEN TRUE
                     ELSE LET n == WalkOxm1(b, i, e) IN n > 0 /\ WalkOxms(b, i + n, e)
\* returns the cursor after the padded match, or 0
WalkMatch(b, i, e) ==
  IF ~In(b, i, 4, e) THEN 0
  ELSE LET len == W16(b, i + 2)  padded == RoundUp(len, 8) IN
       IF /\ W16(b, i) = 1 /\ len >= 4 /\ In(b, i, padded, e)
          /\ WalkOxms(b, i + 4, i + len - 1) /\ ZeroRange(b, i + len, i + padded - 1)
       THEN i + padded ELSE 0
\* fixed sizes of the standard actions by type code
StdActSize == [x \in {0, 11, 12, 15, 16, 17, 18, 19, 20, 21, 22, 23, 24, 26, 27} |-> IF x = 0 THEN 16 ELSE 8]
\* sizes of fixed-size Nicira actions by subtype
NxFixed == [x \in {1, 6, 7, 14, 15, 18, 20, 34, 43, 44} |-> IF x \in {6, 7, 15} THEN 24 ELSE 16]
LearnSpecSize(b, i, e) ==     \* size of the flow-mod spec at i, or 0
  IF ~In(b, i, 2, e) THEN 0
  ELSE LET h == W16(b, i)  nb == h % 1024  dst == (h \div 2048) % 4  src == (h \div 8192) % 2
           s1 == IF src = 1 THEN 2 * ((nb + 15) \div 16) ELSE 6
           s2 == IF dst = 2 THEN 0 ELSE 6 IN
       IF h \div 16384 = 0 /\ (h \div 1024) % 2 = 0 /\ dst \in {0, 1, 2} /\ nb >= 1 /\ In(b, i, 2 + s1 + s2, e)
          /\ (src = 1 \/ HasCode(W16(b, i + 2), b[i + 4] \div 2))
          /\ (dst = 2 \/ HasCode(W16(b, i + 2 + s1), b[i + 4 + s1] \div 2))
       THEN 2 + s1 + s2 ELSE 0
RECURSIVE WalkLearnSpecs(_, _, _)
WalkLearnSpecs(b, i, e) ==    \* specs, then zero padding (a zero header ends the list)
  IF i > e THEN TRUE
  ELSE IF e - i + 1 < 8 /\ ZeroRange(b, i, e) THEN TRUE
  ELSE LET n == LearnSpecSize(b, i, e) IN n > 0 /\ WalkLearnSpecs(b, i + n, e)
NatBody(b, i, e) ==           \* i = first byte after the subtype
  /\ In(b, i, 6, e) /\ b[i] = 0 /\ b[i + 1] = 0
  /\ LET rp == W16(b, i + 4)
         need == 4 * Bool01(rp % 2 = 1) + 4 * Bool01((rp \div 2) % 2 = 1) + 16 * Bool01((rp \div 4) % 2 = 1)
                 + 16 * Bool01((rp \div 8) % 2 = 1) + 2 * Bool01((rp \div 16) % 2 = 1) + 2 * Bool01((rp \div 32) % 2 = 1) IN
     /\ rp < 64 /\ In(b, i + 6, need, e) /\ e - (i + 6 + need) + 1 < 8 /\ ZeroRange(b, i + 6 + need, e)
RECURSIVE WalkActions(_, _, _)
WalkNx(b, i, len) ==          \* a Nicira action occupying [i, i+len-1]
  LET e == i + len - 1  st == W16(b, i + 8)  body == i + 10 IN
  /\ len >= 16 /\ SubSeq(b, i + 4, i + 7) = NxVendor
  /\ CASE st \in DOMAIN NxFixed -> len = NxFixed[st]
       [] st = 8  -> TRUE                                                 \* note: any bytes
       [] st = 16 -> len >= 32 /\ WalkLearnSpecs(b, i + 32, e)
       [] st = 21 -> LET n == W16(b, body) IN
                     /\ ZeroRange(b, body + 2, body + 5) /\ len = RoundUp(16 + 2 * n, 8) /\ ZeroRange(b, i + 16 + 2 * n, e)
       [] st = 33 -> LET n == WalkOxm1(b, body, e) IN n > 0 /\ len = RoundUp(10 + n, 8) /\ ZeroRange(b, body + n, e)
       [] st = 35 -> len >= 24 /\ WalkActions(b, i + 24, e)
       [] st = 36 -> NatBody(b, body, e)
       [] OTHER -> FALSE
WalkActions(b, i, e) ==
  IF i = e + 1 THEN TRUE
  ELSE /\ In(b, i, 4, e)
       /\ LET t == W16(b, i)  len == W16(b, i + 2) IN
          /\ len >= 8 /\ len % 8 = 0 /\ In(b, i, len, e)
          /\ CASE t \in DOMAIN StdActSize -> len = StdActSize[t]
               [] t = 25 -> LET n == WalkOxm1(b, i + 4, i + len - 1) IN
                            n > 0 /\ len = RoundUp(4 + n, 8) /\ ZeroRange(b, i + 4 + n, i + len - 1)
               [] t = 65535 -> WalkNx(b, i, len)
               [] OTHER -> FALSE
          /\ WalkActions(b, i + len, e)
RECURSIVE WalkInstrs(_, _, _)
WalkInstrs(b, i, e) ==
  IF i = e + 1 THEN TRUE
  ELSE /\ In(b, i, 4, e)
       /\ LET t == W16(b, i)  len == W16(b, i + 2) IN
          /\ len >= 8 /\ len % 8 = 0 /\ In(b, i, len, e)
          /\ CASE t = 1 -> len = 8 [] t = 2 -> len = 24 [] t \in {3, 4} -> WalkActions(b, i + 8, i + len - 1)
               [] t = 5 -> len = 8 [] t = 6 -> len = 8 [] OTHER -> FALSE
          /\ WalkInstrs(b, i + len, e)
RECURSIVE WalkBuckets(_, _, _)
WalkBuckets(b, i, e) ==
  IF i = e + 1 THEN TRUE
  ELSE /\ In(b, i, 16, e)
       /\ LET len == W16(b, i) IN
          /\ len >= 16 /\ len % 8 = 0 /\ In(b, i, len, e) /\ WalkActions(b, i + 16, i + len - 1) /\ WalkBuckets(b, i + len, e)
RECURSIVE WalkHelloElems(_, _, _)
WalkHelloElems(b, i, e) ==
  IF i = e + 1 THEN TRUE
  ELSE /\ In(b, i, 4, e)
       /\ LET t == W16(b, i)  len == W16(b, i + 2)  padded == RoundUp(len, 8) IN
          /\ t = 1 /\ len >= 4 /\ (len - 4) % 4 = 0 /\ In(b, i, padded, e) /\ ZeroRange(b, i + len, i + padded - 1)
          /\ WalkHelloElems(b, i + padded, e)
RECURSIVE WalkProps(_, _, _)
WalkProps(b, i, e) ==
  IF i = e + 1 THEN TRUE
  ELSE /\ In(b, i, 4, e)
       /\ LET t == W16(b, i)  len == W16(b, i + 2)  padded == RoundUp(len, 8) IN
          /\ t = 65535 /\ len >= 12 /\ In(b, i, padded, e) /\ ZeroRange(b, i + len, i + padded - 1) /\ WalkProps(b, i + padded, e)
RECURSIVE WalkMsgAt(_, _, _)
WalkVendor(b, i, e) ==        \* i = first byte after the 8-byte OpenFlow header
  /\ In(b, i, 8, e)
  /\ LET vendor == SubSeq(b, i, i + 3)  et == SubSeq(b, i + 4, i + 7)  d == i + 8 IN
     CASE vendor = NxVendor /\ et = <<0, 0, 0, 20>> -> e - d + 1 = 8
       [] vendor = NxVendor /\ et = <<0, 0, 0, 24>> -> e - d + 1 >= 8 /\ (e - d + 1) % 8 = 0
       [] vendor = NxVendor /\ et = <<0, 0, 0, 25>> -> e = d - 1
       [] vendor = NxVendor /\ et = <<0, 0, 0, 26>> -> e - d + 1 >= 16 /\ (e - d + 1) % 8 = 0
       [] vendor = <<79, 78, 70, 0>> /\ et = <<0, 0, 8, 252>> -> e - d + 1 >= 8 /\ WalkProps(b, d + 8, e)        \* bundle control 2300
       [] vendor = <<79, 78, 70, 0>> /\ et = <<0, 0, 8, 253>> ->                                             \* bundle add 2301
            /\ In(b, d, 16, e)
            /\ LET ml == W16(b, d + 10)  me == d + 8 + ml - 1 IN
                 /\ ml >= 8 /\ In(b, d + 8, ml, e) /\ WalkMsgAt(b, d + 8, me)
                 /\ (me = e \/ (In(b, d + 8, RoundUp(ml, 8), e) /\ ZeroRange(b, me + 1, d + 8 + RoundUp(ml, 8) - 1)   \* padded only when properties follow
                                /\ d + 8 + RoundUp(ml, 8) <= e /\ WalkProps(b, d + 8 + RoundUp(ml, 8), e)))    \* at least one property
       [] OTHER -> TRUE                                                   \* other experimenters: opaque
WalkMp(b, i, e) ==            \* multipart request body after type/flags/pad
  /\ In(b, i, 8, e)
  /\ LET t == W16(b, i)  d == i + 8 IN
     CASE t \in {0, 3, 7, 8, 11, 13} -> e = d - 1                          \* desc, table, group-desc, group-features, meter-features, port-desc: empty
       [] t \in {1, 2} -> In(b, d, 32, e) /\ WalkMatch(b, d + 32, e) = e + 1
       [] t = 4 -> e - d + 1 = 8
       [] t = 5 -> e - d + 1 = 8
       [] OTHER -> TRUE
WalkMsgAt(b, i, e) ==         \* a complete OpenFlow message occupying exactly [i, e]
  /\ In(b, i, 8, e) /\ b[i] = 4 /\ W16(b, i + 2) = e - i + 1
  /\ LET t == b[i + 1]  d == i + 8 IN
     CASE t \in {2, 3, 5, 7, 20, 21} -> TRUE
       [] t = 0  -> WalkHelloElems(b, d, e)
       [] t = 1  -> e - d + 1 >= 4
       [] t = 4  -> WalkVendor(b, d, e)
       [] t \in {8, 9} -> e - d + 1 = 4
       [] t = 13 -> /\ In(b, d, 16, e)
                    /\ LET al == W16(b, d + 8) IN In(b, d + 16, al, e) /\ WalkActions(b, d + 16, d + 16 + al - 1)
       [] t = 14 -> /\ In(b, d, 40, e)
                    /\ LET j == WalkMatch(b, d + 40, e) IN j # 0 /\ WalkInstrs(b, j, e)
       [] t = 15 -> In(b, d, 8, e) /\ WalkBuckets(b, d + 8, e)
       [] t = 16 -> e - d + 1 = 32
       [] t = 18 -> WalkMp(b, d, e)
       [] OTHER -> FALSE
WalkMsg(b) == Len(b) >= 8 /\ WalkMsgAt(b, 1, Len(b))
=============================================================================
