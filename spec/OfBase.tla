------------------------------- MODULE OfBase -------------------------------
(* The cursor-style base encoder/decoder (package ofbase).                   *)
(*  Encoder state: the bytes written so far.                                 *)
(*  Decoder state: a stack of frames [s, e, o]: the frame covers absolute    *)
(*  positions s..e-1 of the enclosing message (0-based), o is its local      *)
(*  offset; its BaseOffset is s.  SliceDecoder pushes a frame.               *)
EXTENDS Bytes, TLC, Json

\* ---------------- encoder ----------------
\* op = <<"u8"|"u16"|"u32"|"u64"|"u128"|"raw"|"ch", bytes>> or <<"align">>
Width == [u8 |-> 1, u16 |-> 2, u32 |-> 4, u64 |-> 8, u128 |-> 16]
EncOp(buf, op) == IF op[1] = "align" THEN Pad8(buf) ELSE buf \o op[2]
RECURSIVE EncPrefix(_, _)
EncPrefix(ops, k) == IF k = 0 THEN <<>> ELSE EncOp(EncPrefix(ops, k - 1), ops[k])

\* ---------------- decoder ----------------
Msg(n) == [i \in 1..n |-> i % 256]
Top(stk) == stk[Len(stk)]
Abs(fr) == fr.s + fr.o
AlignedOff(fr) == RoundUp(Abs(fr), 8) - fr.s            \* next multiple of 8 from the message start
\* dec op = <<"skip", n>> | <<"align">> | <<"slice", len, rew>> | <<"rd", w>> | <<"pop">>
DecEnabled(stk, op) ==
  LET fr == Top(stk) IN
  CASE op[1] = "skip"  -> fr.s + fr.o + op[2] <= fr.e
    [] op[1] = "align" -> AlignedOff(fr) + fr.s <= fr.e
    [] op[1] = "slice" -> op[2] >= op[3] /\ fr.s + fr.o + op[2] - op[3] <= fr.e
    [] op[1] = "rd"    -> fr.s + fr.o + op[2] <= fr.e
    [] op[1] = "pop"   -> Len(stk) > 1
SetTop(stk, fr) == [stk EXCEPT ![Len(stk)] = fr]
DecStep(stk, op) ==
  LET fr == Top(stk) IN
  CASE op[1] = "skip"  -> SetTop(stk, [fr EXCEPT !.o = @ + op[2]])
    [] op[1] = "align" -> SetTop(stk, [fr EXCEPT !.o = AlignedOff(fr)])
    [] op[1] = "slice" -> Append(SetTop(stk, [fr EXCEPT !.o = @ + op[2] - op[3]]),
                                 [s |-> Abs(fr), e |-> Abs(fr) + op[2] - op[3], o |-> 0])
    [] op[1] = "rd"    -> SetTop(stk, [fr EXCEPT !.o = @ + op[2]])
    [] op[1] = "pop"   -> SubSeq(stk, 1, Len(stk) - 1)
\* what the real decoder must report after the op: <<Offset(), BaseOffset(), Length(), value, Bytes()>>
\* (Bytes() is the unread rest of the current frame: it starts at the cursor and never reaches past the frame)
DecObs(n, before, after, op) ==
  LET fr == Top(after) IN
  << fr.o, fr.s, (fr.e - fr.s) - fr.o,
     IF op[1] = "rd" THEN Sub(Msg(n), Abs(Top(before)) + 1, op[2]) ELSE <<>>,
     Sub(Msg(n), Abs(fr) + 1, (fr.e - fr.s) - fr.o) >>
RECURSIVE DecRun(_, _, _, _)
DecRun(n, stk, ops, k) ==      \* sequence of expected observations for ops[k..]
  IF k > Len(ops) THEN <<>>
  ELSE LET nxt == DecStep(stk, ops[k]) IN << DecObs(n, stk, nxt, ops[k]) >> \o DecRun(n, nxt, ops, k + 1)
InitStack(n) == << [s |-> 0, e |-> n, o |-> 0] >>

\* design-level statement of the alignment clause, for any frame
AlignExact(fr) == LET o2 == AlignedOff(fr) IN
   /\ (fr.s + o2) % 8 = 0 /\ o2 >= fr.o /\ o2 - fr.o <= 7
=============================================================================
