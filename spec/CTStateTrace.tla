---------------------------- MODULE CTStateTrace ----------------------------
(* Judge for C18: every recorded line is                                     *)
(*   [from |-> 8 x {"u","s","c"}, ops |-> <<<<flag, pol>>, ...>>,            *)
(*    obs |-> [bytes |-> encoded NXM_NX_CT_STATE field, panic |-> ...]]      *)
(* The real builder was driven to `from` by the canonical call sequence,     *)
(* then `ops` were applied; the encoding must equal Wire(ApplySeq(from,ops)) *)
EXTENDS CTState
CONSTANT TraceFile
Trace == ndJsonDeserialize(TraceFile)
VARIABLES l, done
vars == <<l, done>>

Expected(e) == Wire(ApplySeq(FromArr(e.from), e.ops))
Ok(e) == /\ "bytes" \in DOMAIN e.obs
         /\ e.obs.bytes = Expected(e)
Init == l \in 1..Len(Trace) /\ done = FALSE
Judge == /\ ~done /\ done' = TRUE /\ UNCHANGED l
         /\ LET e == Trace[l] IN
              IF Ok(e) THEN TRUE
              ELSE PrintT(ToJson([reject |-> l, id |-> e.id, pred |-> "P18",
                                  expected |-> Expected(e), obs |-> e.obs]))
Next == Judge
Spec == Init /\ [][Next]_vars
=============================================================================
