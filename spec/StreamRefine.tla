---------------------------- MODULE StreamRefine ----------------------------
(* Machine-checked refinement Stream => StreamExt (C10).                      *)
(* Trace validation judges the recorded event logs of the real MessageStream  *)
(* against StreamExt.tla (external events only); the exhaustive design check  *)
(* is made on Stream.tla (one action per channel operation).  This module     *)
(* ties the two: every action of Stream is given the external events the rig  *)
(* logs for it, the events are fed to StreamExt's Step as they happen, and    *)
(* TLC checks that StreamExt accepts every event of every behaviour of Stream *)
(* (ExtAccepts), accepts the final re-observation of every delivered message  *)
(* in every state (FinalAccepts) and accepts "End" in every terminal state    *)
(* (EndAccepts).  With Alias = TRUE the refinement must fail (sensitivity).   *)
EXTENDS Stream
VARIABLES ext, extok, ncall
Ext == INSTANCE StreamExt
rvs == <<vars, ext, extok, ncall>>
RECURSIVE Run(_, _)
Run(st, evs) == IF evs = <<>> THEN [ok |-> TRUE, st |-> st]
                ELSE LET r == Ext!Step(Frames, st, Head(evs)) IN IF r.ok THEN Run(r.st, Tail(evs)) ELSE [ok |-> FALSE, st |-> st]
Obs(evs) == LET r == Run(ext, evs) IN ext' = r.st /\ extok' = (extok /\ r.ok)
Silent == UNCHANGED <<ext, extok, ncall>>
RInit == Init /\ ext = Ext!St0 /\ extok = TRUE /\ ncall = 0
RNext ==
  \/ RReadData /\ Obs(<<[e |-> "Fed", n |-> pos' - pos]>>) /\ UNCHANGED ncall          \* the scripted connection logs every chunk it hands out
  \/ RReadFail /\ Obs(<<[e |-> "Fail"]>>) /\ UNCHANGED ncall
  \/ (RTake0 \/ RReadClosed \/ RProc \/ RPut \/ RTake \/ RErr \/ RShut) /\ Silent
  \/ \E p \in Parsers :
       \/ PParse(p) /\ ncall' = ncall + 1                                              \* the gating parser logs begin (with the bytes) and end
                    /\ Obs(<<[e |-> "PB", c |-> ncall + 1, b |-> content[pbuf[p]]], [e |-> "PE", c |-> ncall + 1]>>)
       \/ (PTake(p) \/ PStop(p) \/ PSend(p) \/ PReset(p) \/ PRet(p)) /\ Silent
  \/ CRecv /\ Obs(<<[e |-> "Recv", b |-> Val(Head(inbound))]>>) /\ UNCHANGED ncall     \* the consumer logs the re-encoding of what it received
  \/ CErr /\ Obs(<<[e |-> "Err"]>>) /\ UNCHANGED ncall
  \/ AppShutdown /\ Obs(<<[e |-> "AppShutdown"]>>) /\ UNCHANGED ncall
  \/ SClose /\ Obs(<<[e |-> "Closed"]>>) /\ UNCHANGED ncall
  \/ (SWait \/ SStop) /\ Silent
RSpec == RInit /\ [][RNext]_rvs
ExtAccepts == extok
FinalAccepts == \A j \in 1..Len(delivered) : Ext!Step(Frames, ext, [e |-> "Final", j |-> j, b |-> Val(delivered[j])]).ok
\* terminal states in which the rig writes "End": quiet without failure, or the failure has been published and consumed
TerminalQuiet == Quiescent /\ ~ext.shut /\ shutCh = <<>> /\ spc = "wait"
TerminalFailed == ext.failed /\ rpc = "done" /\ errorCh = <<>>
EndAccepts == (TerminalQuiet \/ TerminalFailed) => Ext!Step(Frames, ext, [e |-> "End", timeout |-> FALSE]).ok
ShutdownSilent == (ext.shut /\ ~ext.failed) => ext.errs = 0
=============================================================================
