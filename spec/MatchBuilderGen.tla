-------------------------- MODULE MatchBuilderGen --------------------------
(* Generators for C17.                                                      *)
(*  "R": one 32-bit register: every window (o, n) inside the field x value  *)
(*       classes x calling conventions, plus windows just beyond the field. *)
(*  "F": every registered fixed-width field x boundary windows x classes.   *)
(*  "T": every Go argument type x sign x a few windows (incl. negative      *)
(*       window arguments).                                                  *)
EXTENDS MatchBuilder
CONSTANTS Family, Stride, Phase
VARIABLE c
VL == 17                                    \* bytes used to carry |value| (136 bits)
Alt(n) == {i \in 0..(n - 1) : i % 2 = 0}
\* value classes relative to a window of n bits (before shifting)
VClasses(n) == {{}, {0}, 0..(n - 1), {n - 1}, Alt(n), {n}, 0..n}
TypeBits == [u8 |-> 8, u16 |-> 16, u32 |-> 32, u64 |-> 64, uint |-> 64, i8 |-> 7, i16 |-> 15, i32 |-> 31,
             i64 |-> 63, int |-> 63, bytes |-> 136, ip |-> 136, mac |-> 136, big |-> 136]
Types == DOMAIN TypeBits
Signed == {"i8", "i16", "i32", "i64", "int", "big"}
IsRegName(nm) == ClassOf(nm) = 1 /\ FieldOf(nm) <= 15
\* the requested argument type if the value fits it, else *big.Int; the register index is the field number
Emit(call, at0, idx0) ==
  LET at == IF BitLen(call.v) <= TypeBits[at0] /\ (call.neg => at0 \in Signed) THEN at0 ELSE "big"
      idx == IF IsRegName(call.name) THEN FieldOf(call.name) ELSE 0 IN
  /\ ModelOK(call)
  /\ PrintT(ToJson([k |-> "mf", name |-> call.name, form |-> call.form, val |-> BitsToBytes(call.v, VL),
                    neg |-> call.neg, o |-> call.o, n |-> call.n, s |-> call.s, at |-> at, reg |-> idx,
                    placed |-> BitsToBytes(Placed(call), 4)]))
Call(name, form, v, neg, o, n, s) == [name |-> name, form |-> form, v |-> v, neg |-> neg, o |-> o, n |-> n, s |-> s]
Fits(at, v, neg) == BitLen(v) <= TypeBits[at] /\ (neg => at \in Signed /\ v # {})
RegName(i) == "NXM_NX_REG" \o ToString(i)
TypeFor(k) == CASE k % 4 = 0 -> "u64" [] k % 4 = 1 -> "bytes" [] k % 4 = 2 -> "big" [] OTHER -> "int"

Windows32 == {<<o, n>> \in (0..32) \X (1..33) : o + n <= 33}      \* inside the field and one bit beyond
NextR ==
  \E w \in Windows32 :
    LET o == w[1]  n == w[2]  idx == (o + n) % 16 IN
    /\ (o * 33 + n) % Stride = Phase
    /\ \/ \E v \in VClasses(n), form \in {2, 3} :
            /\ c' = <<w, v, form>>
            /\ Emit(Call(RegName(idx), form, v, FALSE, o, n, 1), TypeFor(o + n + form), idx)
       \/ \E v \in {ShiftBits(x, o) : x \in VClasses(n)} \cup (IF o > 0 THEN {{o - 1}, {o - 1, o}} ELSE {}) :
            /\ c' = <<w, v, 30>>
            /\ Emit(Call(RegName(idx), 3, v, FALSE, o, n, 0), TypeFor(o + n), idx)
       \/ \E v \in {{n - 1}, 0..(n - 1)} :                          \* form 1: width = bit length of the value
            /\ c' = <<w, v, 1>>
            /\ Emit(Call(RegName(idx), 1, v, FALSE, o, 0, 0), TypeFor(o), idx)
FixedNames == {nm \in Names \ Optional : WidthOf(nm) > 0}
FWindows(W) == {<<0, 8 * W>>, <<0, 1>>, <<8 * W - 1, 1>>, <<3, 7>>, <<8 * W - 5, 5>>,   \* inside
                <<1, 8 * W>>, <<8 * W, 1>>, <<8 * W - 4, 5>>, <<8 * W + 8, 4>>}         \* beyond
NextF ==
  \E nm \in FixedNames :
    LET W == WidthOf(nm) IN
    \/ \E v \in {{}, {0}, {8 * W - 1}, 0..(8 * W - 1), Alt(8 * W), {8 * W}, 0..(8 * W), {8 * W + 7}} :
         /\ c' = <<nm, v, 0>>
         /\ Emit(Call(nm, 0, v, FALSE, 0, 0, 0), TypeFor(Cardinality(v) + W), 0)
    \/ \E w \in {x \in FWindows(W) : x[1] >= 0 /\ x[2] >= 1}, form \in {2, 3} :
       \E v \in VClasses(w[2]) :
         /\ c' = <<nm, v, w, form>>
         /\ Emit(Call(nm, form, v, FALSE, w[1], w[2], 1), TypeFor(w[1] + form + Cardinality(v)), 0)
    \/ \E w \in {x \in FWindows(W) : x[1] >= 0 /\ x[2] >= 1} :
       \E v \in {ShiftBits(x, w[1]) : x \in VClasses(w[2])} :
         /\ c' = <<nm, v, w, 30>>
         /\ Emit(Call(nm, 3, v, FALSE, w[1], w[2], 2), TypeFor(w[1] + Cardinality(v)), 0)
    \/ \E o \in {0, 1, 8 * W - 3, 8 * W - 1, 8 * W}, v \in {{0}, {0, 2}, 0..2, {3}} :
         /\ c' = <<nm, v, o, 1>>
         /\ Emit(Call(nm, 1, v, FALSE, o, 0, 0), TypeFor(o + Cardinality(v)), 0)
TNames == {"NXM_NX_REG3", "OXM_OF_ETH_SRC", "OXM_OF_METADATA", "NXM_NX_CT_LABEL", "OXM_OF_IP_DSCP", "OXM_OF_VLAN_VID"}
NextT ==
  \E nm \in TNames, at \in Types, neg \in BOOLEAN :
    LET W == WidthOf(nm) IN
    \/ \E v \in {{0}, {6}, 0..6, {7}, {14}, 0..14, {15}, {31}, {62}, {63}, 0..63, {8 * W - 1}, {8 * W}, 0..(8 * W - 1)} :
         /\ Fits(at, v, neg)
         /\ \/ /\ c' = <<nm, at, neg, v, 0>>
               /\ Emit(Call(nm, 0, v, neg, 0, 0, 0), at, 3)
            \/ \E w \in {<<0, 8 * W>>, <<1, 7>>, <<8 * W - 8, 8>>} :
                 /\ c' = <<nm, at, neg, v, w>>
                 /\ Emit(Call(nm, 2, v, neg, w[1], w[2], 1), at, 3)
    \/ /\ ~neg
       /\ \E w \in {<<0 - 1, 4>>, <<2, 0 - 3>>, <<0 - 8, 0 - 8>>, <<1000, 4>>, <<0, 1000>>, <<70000, 1>>}, form \in {1, 2, 3} :
            /\ c' = <<nm, at, w, form>>
            /\ Emit(Call(nm, form, {0, 1}, FALSE, w[1], w[2], 1), at, 3)
Init == c = <<>>
Next == c = <<>> /\ CASE Family = "R" -> NextR [] Family = "F" -> NextF [] Family = "T" -> NextT
Spec == Init /\ [][Next]_c
=============================================================================
