--------------------------- MODULE StreamOutTrace ---------------------------
(* Trace validation for C11.  Events of one recorded execution, in log order: *)
(* SB(p, i) producer p is about to submit its i-th message, SE(p, i) the      *)
(* channel send returned, W(bytes) one Write call on the connection, End.     *)
(* obs.msgs[p][i] is the encoding of the message as built.  The wire is the   *)
(* concatenation of the W payloads, re-framed by the header length field;     *)
(* contiguity is judged on the byte stream, not on Write-call boundaries.     *)
EXTENDS Integers, Sequences, FiniteSets, TLC, Json
CONSTANT TraceFile
Trace == ndJsonDeserialize(TraceFile)
VARIABLES l, k, st, dead
vars == <<l, k, st, dead>>
Has(r, f) == f \in DOMAIN r
NP(e) == Len(e.obs.msgs)
St0(e) == [begun |-> [p \in 1..NP(e) |-> 0], written |-> [p \in 1..NP(e) |-> 0], pend |-> <<>>, frames |-> 0, faulted |-> FALSE]
Ok(s) == [ok |-> TRUE, st |-> s, why |-> ""]
No(s, why) == [ok |-> FALSE, st |-> s, why |-> why]
\* consume complete frames from the pending bytes
RECURSIVE Drain(_, _)
Drain(e, s) ==
  IF Len(s.pend) < 8 THEN Ok(s)
  ELSE LET ln == s.pend[3] * 256 + s.pend[4] IN
       IF ln < 8 THEN No(s, "a frame on the wire declares a length below 8: de-framing lost synchronisation")
       ELSE IF Len(s.pend) < ln THEN Ok(s)
       ELSE LET fr == SubSeq(s.pend, 1, ln)
                p == fr[5] * 256 + fr[6]          \* the rig tags xid = producer << 16 | index
                i == fr[7] * 256 + fr[8] IN
            IF ~(p \in 1..NP(e) /\ i \in 1..Len(e.obs.msgs[p])) THEN No(s, "a frame on the wire is not a submitted message")
            ELSE IF fr # e.obs.msgs[p][i] THEN No(s, "a frame on the wire differs from the encoding of the submitted message (interleaved or corrupted)")
            ELSE IF i > s.begun[p] THEN No(s, "a message appeared on the wire before it was submitted")
            ELSE IF i <= s.written[p] THEN No(s, "a message was written more than once")
            ELSE IF i # s.written[p] + 1 THEN No(s, "messages of one producer were written out of submission order")
            ELSE Drain(e, [s EXCEPT !.written[p] = i, !.pend = SubSeq(s.pend, ln + 1, Len(s.pend)), !.frames = @ + 1])
Step(e, s, ev) ==
  CASE ev.e = "SB" -> IF ev.i = s.begun[ev.p] + 1 THEN Ok([s EXCEPT !.begun[ev.p] = ev.i]) ELSE No(s, "rig: submissions out of order")
    [] ev.e = "SE" -> Ok(s)
    [] ev.e = "W" -> Drain(e, [s EXCEPT !.pend = @ \o ev.b])
    [] ev.e = "Shutdown" -> Ok([s EXCEPT !.faulted = TRUE])     \* the application shut the stream down: later submissions may be dropped, never reordered or duplicated
    [] ev.e = "WFault" -> Ok([s EXCEPT !.faulted = TRUE])       \* the connection accepted part of a frame and timed out
    [] ev.e = "End" ->
         IF Has(ev, "races") /\ ev.races > 0 THEN No(s, "data race reported by the race detector")
         ELSE IF s.faulted THEN Ok(s)       \* after a write failure completeness is not required: everything on the wire was still judged frame by frame
         ELSE IF s.pend # <<>> THEN No(s, "the wire ends inside a frame")
         ELSE IF \E p \in 1..NP(e) : s.written[p] # Len(e.obs.msgs[p]) THEN No(s, "a submitted message was never written")
         ELSE Ok(s)
    [] ev.e = "Overrun" -> No(s, "the writer wrote more than twice the bytes that were submitted (cut off by the rig)")
    [] OTHER -> Ok(s)
Init == l \in 1..Len(Trace) /\ k = 1 /\ st = St0(Trace[l]) /\ dead = FALSE
Next ==
  /\ ~dead
  /\ LET e == Trace[l]  evs == e.obs.events IN
     /\ k <= Len(evs)
     /\ LET r == Step(e, st, evs[k]) IN
        IF r.ok THEN /\ st' = r.st /\ k' = k + 1 /\ UNCHANGED <<l, dead>>
        ELSE /\ dead' = TRUE /\ UNCHANGED <<l, k, st>>
             /\ PrintT(ToJson([reject |-> l, id |-> e.id, pred |-> r.why, at |-> k,
                               state |-> [begun |-> st.begun, written |-> st.written, pending |-> Len(st.pend), frames |-> st.frames]]))
Spec == Init /\ [][Next]_vars
=============================================================================
