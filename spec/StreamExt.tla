------------------------------ MODULE StreamExt ------------------------------
(* The inbound message stream over its externally observable events only.    *)
(* State: bytes handed to the reader so far, which complete frames have had   *)
(* their parse begun / ended, what was delivered, whether the connection      *)
(* failed and how many errors were published.  The rules are property C10 in  *)
(* event form.  Frames is the sequence of well-formed frames on the wire      *)
(* (byte sequences); a trailing partial frame may follow them.                *)
EXTENDS Integers, Sequences, FiniteSets, TLC
RECURSIVE EndOff(_, _)
EndOff(frames, i) == IF i = 0 THEN 0 ELSE Len(frames[i]) + EndOff(frames, i - 1)
St0 == [fed |-> 0, began |-> {}, inparse |-> <<>>, ended |-> {}, deliv |-> <<>>,
        failed |-> FALSE, shut |-> FALSE, errs |-> 0, closed |-> FALSE]
DelivSet(st) == {st.deliv[j] : j \in 1..Len(st.deliv)}
\* inparse: sequence of <<call id, frame index>>
CallFrame(st, c) == LET S == {j \in 1..Len(st.inparse) : st.inparse[j][1] = c} IN
                    IF S = {} THEN 0 ELSE st.inparse[CHOOSE j \in S : TRUE][2]
Has(r, f) == f \in DOMAIN r
\* Step(frames, st, ev) = [ok, st, why]
Ok(st) == [ok |-> TRUE, st |-> st, why |-> ""]
No(st, why) == [ok |-> FALSE, st |-> st, why |-> why]
Step(frames, st, ev) ==
  CASE ev.e = "Fed" -> Ok([st EXCEPT !.fed = @ + ev.n])
    [] ev.e = "PB" ->
         \* a parse begins on exactly one complete, not-yet-parsed frame of the fed prefix
         LET C == {i \in 1..Len(frames) : i \notin st.began /\ EndOff(frames, i) <= st.fed /\ Has(ev, "b") /\ frames[i] = ev.b} IN
         IF C = {} THEN No(st, "a parse began on bytes that are not one complete, not yet parsed frame of the bytes received so far")
         ELSE LET i == CHOOSE x \in C : \A y \in C : x <= y IN
              Ok([st EXCEPT !.began = @ \cup {i}, !.inparse = Append(@, <<ev.c, i>>)])
    [] ev.e = "PE" ->
         LET i == CallFrame(st, ev.c) IN
         IF i = 0 THEN No(st, "parse end without begin")
         ELSE IF Has(ev, "err") \/ Has(ev, "panic") THEN No(st, "the parser failed on a well-formed frame")
         ELSE Ok([st EXCEPT !.ended = @ \cup {i}])
    [] ev.e = "Recv" ->
         \* exactly the result of an ended parse, once, intact
         IF ~Has(ev, "b") THEN No(st, "a nil / unencodable message was delivered")
         ELSE LET C == {i \in st.ended \ DelivSet(st) : frames[i] = ev.b} IN
              IF C = {} THEN No(st, "delivered message is not an intact, parsed, not yet delivered complete frame (lost, duplicated, merged or corrupted)")
              ELSE Ok([st EXCEPT !.deliv = Append(@, CHOOSE x \in C : \A y \in C : x <= y)])
    [] ev.e = "Fail" -> Ok([st EXCEPT !.failed = TRUE])
    [] ev.e = "AppShutdown" -> Ok([st EXCEPT !.shut = TRUE])
    [] ev.e = "Closed" -> Ok([st EXCEPT !.closed = TRUE])
    [] ev.e = "Err" ->
         IF ~st.failed THEN No(st, "an error was published without a connection failure")
         ELSE IF st.errs >= 1 THEN No(st, "the failure was published more than once")
         ELSE Ok([st EXCEPT !.errs = 1])
    [] ev.e = "Final" ->
         \* every delivered message is still the frame it was, after later frames were received into recycled buffers
         IF ev.j > Len(st.deliv) THEN No(st, "final observation of an undelivered message")
         ELSE IF Has(ev, "b") /\ ev.b = frames[st.deliv[ev.j]] THEN Ok(st)
         ELSE No(st, "a delivered message changed after delivery (buffer reuse)")
    [] ev.e = "End" ->
         IF Has(ev, "races") /\ ev.races > 0 THEN No(st, "data race reported by the race detector") ELSE
         IF st.failed THEN (IF st.errs = 1 THEN Ok(st) ELSE No(st, "connection failure was not published exactly once"))
         ELSE IF st.shut THEN (IF st.errs = 0 THEN Ok(st) ELSE No(st, "error published on an application shutdown"))
         ELSE IF Len(st.deliv) = Len(frames) /\ ~ev.timeout THEN Ok(st)
         ELSE No(st, "not every complete frame was delivered at quiescence")
    [] OTHER -> No(st, "unknown event")
=============================================================================
