--------------------------- MODULE StreamExtTrace ---------------------------
(* Trace validation for C10: every line is one recorded execution of the     *)
(* real MessageStream (frames fed, events in log order); each event is one   *)
(* step of StreamExt.  The first event the specification cannot take is      *)
(* reported and the execution is abandoned (no cascades).                    *)
EXTENDS StreamExt, Json
CONSTANT TraceFile
Trace == ndJsonDeserialize(TraceFile)
VARIABLES l, k, st, dead
vars == <<l, k, st, dead>>
Init == l \in 1..Len(Trace) /\ k = 1 /\ st = St0 /\ dead = FALSE
Events(e) == IF "events" \in DOMAIN e.obs THEN e.obs.events ELSE <<>>
Next ==
  /\ ~dead
  /\ LET e == Trace[l]  evs == Events(e) IN
     IF evs = <<>> THEN
        /\ dead' = TRUE /\ UNCHANGED <<l, k, st>>
        /\ PrintT(ToJson([reject |-> l, id |-> e.id, pred |-> "the rig recorded no events", at |-> 0]))
     ELSE
        /\ k <= Len(evs)
        /\ LET r == Step(e.obs.frames, st, evs[k]) IN
           IF r.ok THEN /\ st' = r.st /\ k' = k + 1 /\ UNCHANGED <<l, dead>>
           ELSE /\ dead' = TRUE /\ UNCHANGED <<l, k, st>>
                /\ PrintT(ToJson([reject |-> l, id |-> e.id, pred |-> r.why, at |-> k,
                                  event |-> [x \in DOMAIN evs[k] \ {"b"} |-> evs[k][x]],
                                  state |-> [fed |-> st.fed, began |-> Cardinality(st.began), ended |-> Cardinality(st.ended),
                                             delivered |-> Len(st.deliv), failed |-> st.failed, errs |-> st.errs]]))
Spec == Init /\ [][Next]_vars
=============================================================================
