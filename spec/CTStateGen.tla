----------------------------- MODULE CTStateGen -----------------------------
(* Scenario generators for C18.                                              *)
(*  Family "T": the complete state graph, one scenario per transition        *)
(*              (3^8 = 6561 states x 16 operations = 104 976).               *)
(*  Family "S": every call sequence of length 1..MaxLen from the fresh       *)
(*              builder.                                                     *)
(*  Family "R": random sequences of length exactly MaxLen (simulation).      *)
(* The design-level statement of the property is checked on the model here:  *)
(* LastCallWins is an invariant over the history variable.                   *)
EXTENDS CTState
CONSTANTS Family, MaxLen
VARIABLES st, hist
vars == <<st, hist>>

Init == st = Untouched /\ hist = <<>>

Emit(from, ops) == PrintT(ToJson([from |-> ToArr(from), ops |-> ops]))

NextT == \E f \in Flags, p \in Pol :
           /\ st' = Apply(st, f, p) /\ hist' = <<>>
           /\ Emit(st, << <<f, p>> >>)
NextS == /\ Len(hist) < MaxLen
         /\ \E f \in Flags, p \in Pol :
              /\ st' = Apply(st, f, p) /\ hist' = Append(hist, <<f, p>>)
              /\ Emit(Untouched, hist')
              /\ (hist = <<>> => Emit(Untouched, <<>>))      \* the fresh builder, no call at all: every flag wildcarded
NextR == \/ /\ Len(hist) < MaxLen
            /\ \E f \in Flags, p \in Pol :
                 st' = Apply(st, f, p) /\ hist' = Append(hist, <<f, p>>)
         \/ /\ Len(hist) = MaxLen /\ Emit(Untouched, hist)
            /\ st' = Untouched /\ hist' = <<>>
Next == CASE Family = "T" -> NextT [] Family = "S" -> NextS [] Family = "R" -> NextR
Spec == Init /\ [][Next]_vars

\* ---- the property, on the model ----
LastIdx(h, f) == IF \E i \in 1..Len(h) : h[i][1] = f
                 THEN CHOOSE i \in 1..Len(h) : h[i][1] = f /\ \A j \in (i+1)..Len(h) : h[j][1] # f
                 ELSE 0
LastCallWins == Family = "T" \/
   \A f \in Flags : LET i == LastIdx(hist, f) IN
      /\ (f \in MaskBits(st)) <=> (i # 0)
      /\ (f \in ValueBits(st)) <=> (i # 0 /\ hist[i][2] = "s")
TypeOK == st \in [Flags -> {"u", "s", "c"}]
WireShape == Len(Wire(st)) = 12 /\ BytesToBits(SubSeq(Wire(st), 5, 8)) \subseteq BytesToBits(SubSeq(Wire(st), 9, 12))
=============================================================================
