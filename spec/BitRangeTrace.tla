--------------------------- MODULE BitRangeTrace ---------------------------
(* Judge for C16.  Range lines carry what the real helpers returned for the  *)
(* range built both ways (first/last and offset/width); ofsn lines carry the *)
(* encoder results and the decoder results on the specification's own word.  *)
EXTENDS BitRange
CONSTANT TraceFile
Trace == ndJsonDeserialize(TraceFile)
VARIABLES l, done
vars == <<l, done>>
Has(r, f) == f \in DOMAIN r

\* a register match field with mask: NXM_1 (class 1), field idx, hasmask, len 8, value, mask
RegField(idx, val, f, la) == <<0, 1, idx * 2 + 1, 8>> \o val \o Mask32(f, la)

RangeChecks(e) ==
  LET f == e.first  la == e.last  o == e.obs  n == la - f + 1 IN
  << <<"mask(first,last)",        Has(o, "mask")      /\ o.mask = Mask32(f, la)>>,
     <<"mask(ofs,width)",         Has(o, "mask2")     /\ o.mask2 = Mask32(f, la)>>,
     <<"ofsbits(first,last)",     Has(o, "ofsbits")   /\ o.ofsbits = RangeOfsNbits(f, la)>>,
     <<"ofsbits(ofs,width)",      Has(o, "ofsbits2")  /\ o.ofsbits2 = RangeOfsNbits(f, la)>>,
     <<"GetOfs",                  Has(o, "ofs")       /\ o.ofs = f /\ o.ofs2 = f>>,
     <<"GetNbits",                Has(o, "nbits")     /\ o.nbits = n /\ o.nbits2 = n>>,
     <<"reg match field mask",    Has(o, "regfield")  /\ o.regfield = RegField(e.reg, e.val, f, la)>>,
     <<"ct zone ofs_nbits",       Has(o, "ctzone")    /\ o.ctzone = RangeOfsNbits(f, la)>> >>
OfsnChecks(e) ==
  LET of == e.ofs  n == e.n  o == e.obs  w == OfsNbits(of, n) IN
  << <<"encode(ofs,n)",           Has(o, "enc")     /\ o.enc = w>>,
     <<"encode(start,end)",       Has(o, "enc2")    /\ o.enc2 = w>>,
     <<"decode ofs of spec word", Has(o, "decofs")  /\ o.decofs = of>>,
     <<"decode n of spec word",   Has(o, "decn")    /\ o.decn = n>>,
     <<"range.ToOfsBits(ofs,n)",  Has(o, "rng")     /\ o.rng = w>>,
     <<"range.ToOfsBits(s,e)",    Has(o, "rng2")    /\ o.rng2 = w>>,
     <<"range.GetOfs/GetNbits",   Has(o, "rofs")    /\ o.rofs = of /\ o.rn = n>> >>
Checks(e) == IF e.k = "range" THEN RangeChecks(e) ELSE OfsnChecks(e)
Failed(e) == LET cs == Checks(e) IN {i \in DOMAIN cs : ~cs[i][2]}

Init == l \in 1..Len(Trace) /\ done = FALSE
Judge == /\ ~done /\ done' = TRUE /\ UNCHANGED l
         /\ LET e == Trace[l]  bad == Failed(e) IN
              IF bad = {} THEN TRUE
              ELSE LET i == CHOOSE j \in bad : \A k \in bad : j <= k IN
                   PrintT(ToJson([reject |-> l, id |-> e.id, pred |-> Checks(e)[i][1],
                                  scenario |-> [x \in DOMAIN e \ {"obs"} |-> e[x]], obs |-> e.obs]))
Next == Judge
Spec == Init /\ [][Next]_vars
=============================================================================
