#!/usr/bin/env python3
"""Print the prompt given to an independent sub-agent that seeds a property-breaking change.
usage: mutant_prompt.py <property id> <worktree dir> [variant hint]"""
import json, sys
pid, wt = sys.argv[1], sys.argv[2]
hint = sys.argv[3] if len(sys.argv) > 3 else ""
p = next(json.loads(l) for l in open('/verif/properties.jsonl') if json.loads(l)['id'] == pid)
print(f"""You are helping to evaluate a verification effort by seeding a realistic defect.

Repository: a git worktree of the Go library everoute/libOpenflow (module path github.com/contiv/libOpenflow) at {wt}. Work ONLY inside {wt}. Do not read or touch /verif or /repo. The sandbox has no network; use `export GOFLAGS=-mod=mod GOPROXY=off GOSUMDB=off GOTOOLCHAIN=local` before every go command.

Property that the library is supposed to satisfy ({pid}: {p['title']}):

  {p['statement']}

  Quantified over: {p['quantifier']['text']}

Your task: make ONE small, realistic change to the library's non-test source (the kind of slip a maintainer could make in a refactor, optimisation or feature tweak, not an obvious sabotage) that BREAKS this property, while
  (a) everything still compiles (`go build ./... && go vet ./openflow13/ ./protocol/ ./common/ ./util/ ./ofbase/ || true`),
  (b) the existing tests still pass: `go test -vet=off -count=1 ./openflow13/... ./protocol/... ./common/... ./util/... ./ofbase/...` (ignore the root-package TestMessageStream, which is known to fail/take forever on the pristine tree),
  (c) the breakage needs something specific to manifest — a particular interleaving, a fault at a particular point, a multi-step sequence of operations, an unusual input or boundary value, or two cooperating sites that each look fine alone — rather than being exposed at once by any ordinary use. {hint}

Deliver, inside {wt}:
  1. the change itself left applied in the working tree (do NOT commit); save `git diff` of the library change only (no test files) as {wt}/patch.diff;
  2. a demonstration: a new Go test file (name it zz_demo_test.go in the appropriate package directory, or a directory demo/ with a main program) that FAILS with your change and PASSES on the pristine tree. Verify both yourself: run it with the change, then `git stash` (or `git apply -R patch.diff`), run it again on the pristine code, then restore the change. The demonstration must be deterministic or nearly so (if it depends on scheduling, loop enough to make failure overwhelmingly likely, and keep it under ~60 s);
  3. {wt}/meta.json with keys: "property" ("{pid}"), "summary" (one or two sentences on what was changed), "needs" (what specific condition is needed for the breakage to manifest), "demo_cmd" (the exact command, run from {wt}, that runs the demonstration), "files_changed" (list).

Finish by reporting: the diff, the demo command, and the observed output of the demo with and without the change. Keep the patch minimal (a few lines). Do not modify existing tests.""")
