#!/bin/bash
# tools/try_refactor.sh <patch.diff> <check id>... : apply a behaviour-preserving change to /repo, run the checks (quick), restore /repo.
# Every check must exit 0 (a non-zero exit is a false alarm to be investigated).
P=$1; shift
cd "$(dirname "$0")/.."
if ! git -C /repo diff --quiet; then echo "/repo has uncommitted changes; refusing"; exit 2; fi
git -C /repo apply "$P" || { echo "patch does not apply: $P"; exit 2; }
trap 'git -C /repo checkout -- . ; git -C /repo clean -fdq' EXIT
mkdir -p /tmp/w/ev2 && cp evidence/*.json /tmp/w/ev2/ 2>/dev/null
for c in "$@"; do
  bin/check $c --tier quick > /tmp/w/ref.$c.out 2> /tmp/w/ref.$c.err; rc=$?
  echo "$(basename $P) $c rc=$rc $(grep -c VIOLATION /tmp/w/ref.$c.out) viol $(tail -1 /tmp/w/ref.$c.err | cut -c1-120)"
done
cp /tmp/w/ev2/*.json evidence/ 2>/dev/null
