#!/bin/bash
# tools/coverage.sh [tier] : statement coverage of /repo's packages under the corpora of all checks (information, not a verdict).
tier=${1:-quick}
cd "$(dirname "$0")/.."
export VERIF_COVER=$(mktemp -d /tmp/cov-XXXXXX)
mkdir -p /tmp/w/ev && cp evidence/*.json /tmp/w/ev/ 2>/dev/null
for c in C01 C03 C04 C05 C07 C08 C09 C10 C11 C12 C14 C15 C16 C17 C18 C19; do bin/check $c --tier $tier > /dev/null 2>&1; echo "$c rc=$?"; done
cp /tmp/w/ev/*.json evidence/ 2>/dev/null
export GOFLAGS=-mod=mod GOPROXY=off GOSUMDB=off GOTOOLCHAIN=local
cd harness && go tool covdata percent -i=$VERIF_COVER | grep libOpenflow
go tool covdata textfmt -i=$VERIF_COVER -o /tmp/cov.txt && go tool cover -func=/tmp/cov.txt | grep -v "100.0%" | sort -k3 -n | head -150 > /tmp/cov-func.txt
echo "uncovered / partly covered functions: /tmp/cov-func.txt"; rm -rf $VERIF_COVER
