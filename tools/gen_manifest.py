#!/usr/bin/env python3
"""Regenerates /verif/MANIFEST.json from the registry below (single source of truth)."""
import json
import os

VERIF = os.path.dirname(os.path.dirname(os.path.abspath(__file__)))

# id -> (category, technique, level text, level note, design_ref)
CHECKS = {
    "C18": ("model_checking",
            "TLC complete state graph of CTState.tla; every transition + sequences replayed on the real builder; TLC trace judge",
            "The abstract builder (3^8 states x 16 operations) is explored completely by TLC, which also checks the property's "
            "statement (LastCallWins) on the model over call histories; every transition from every abstract state, every call "
            "sequence up to length 3/4 and seeded random long sequences are replayed on the real CTStates and the encoded ct_state "
            "field is judged by TLC against the specification's Wire(). Because the encoded value/mask words are the builder's whole "
            "concrete state, agreement on all transitions is agreement for all call sequences.",
            "Trusted: TLC, the Json module, the harness' mapping of (flag, polarity) to the 16 Go methods, canonical representative "
            "sequences reaching each abstract state.", "4/C18"),
}
CHECKS["C16"] = ("model_checking",
            "TLC complete enumeration (BitRange.tla) of all 528 ranges and 65 536 offset/width pairs; executed on the real helpers; TLC trace judge",
            "The quantifier of the property is finite and is enumerated completely by TLC: every range and every (offset,width) pair "
            "is executed on NXRange (both constructions), the ofs_nbits encode/decode helpers (decoding the specification's own word, so "
            "encoder and decoder are judged independently), NewRegMatchField and the conntrack zone range, and judged by TLC against "
            "BitRange.tla; TLC also evaluates the inverse and mask facts of the specification on the whole domain.",
            "Trusted: TLC, Json module, harness field mapping; the unexported helpers are reached through the guarded hook "
            "openflow13/verif_hooks.go (build tag verif).", "4/C16")
CHECKS["C19"] = ("model_checking",
                 "TLC bounded-exhaustive op sequences of OfBase.tla (encoder writes, decoder frames/slices) replayed on ofbase.Encoder/Decoder; TLC trace judge",
                 "OfBase.tla models the encoder as a byte sequence and the decoder as a stack of frames over the enclosing message; TLC "
                 "enumerates every write sequence to depth 3/4 and every enabled decoder-operation sequence (skips, alignment, nested "
                 "slices with rewind, typed reads) to depth 4/5, checks the alignment clause on every reachable frame of the model, and "
                 "judges every value, offset, base offset and remaining length the real code reported; header decoding is enumerated "
                 "for every input length 0..16.",
                 "Trusted: TLC, Json module, the harness' op-to-method mapping. Bounded depth (uniformity beyond the bound is assumed, "
                 "mitigated by seeded simulated sequences of depth 12/16).", "4/C19")
CHECKS["C15"] = ("model_checking",
                 "TLC enumeration over Registry.tla (names x mask x case; 2x65 536 header words) replayed on the real lookups/packers; "
                 "TLC trace judge; Go race detector for the concurrency clause; oracle-free 2^32 self-inverse sweep",
                 "Registry.tla is an independent transcription of the OF 1.3.5 / OVS field table. TLC enumerates every name x mask x "
                 "case variant as a lookup / mutate / lookup history, all 65 536 low halves and all 65 536 classes of the header word "
                 "(the real unpacker is fed the specification's word), and judges every recorded result; the harness adds the "
                 "self-inverse sweep over header words (all 2^32 in the thorough tier) and concurrent lookups with result mutation "
                 "under the race detector, both reported as trace lines judged by TLC.",
                 "Trusted: my transcription of the table (every disagreement is triaged against the code and the documents), TLC, "
                 "Json module, the Go race detector (stress-sampled schedules, not exhaustive). tun_metadataN widths not asserted.",
                 "4/C15")

CHECKS["C17"] = ("model_checking",
                 "TLC enumeration over MatchBuilder.tla (all register windows x value classes x calling conventions; all fixed-width "
                 "fields x boundary windows; all Go argument types) replayed on NewMatchField / NewRegMatchField; TLC trace judge",
                 "MatchBuilder.tla states when a (value, window) call is representable in a field of W bytes and what the resulting "
                 "value and mask bytes are; TLC checks the property's clauses (value inside mask, mask = window, sizes = width) on the "
                 "model for every generated call, enumerates every window of a 32-bit register (and one bit beyond) x 7 value classes x "
                 "4 calling conventions, every registered fixed-width field x 9 boundary windows, and every Go argument type x sign x "
                 "negative/huge window arguments; each call is executed on the real builder and its error / panic / bytes / sizes / "
                 "argument snapshot are judged by TLC, as is byte equality with NewRegMatchField for registers.",
                 "Trusted: TLC, Json module, Registry.tla's widths, the harness' instantiation of the generic function per argument "
                 "type. Values are classes per window (not all 2^n values); 48/64/128-bit fields use boundary windows only.", "4/C17")

CHECKS["C14"] = ("model_checking",
                 "TLC exhaustive interleavings of Xid.tla (split read/write variant refuted) and a TLAPS proof of distinctness for any number of drawers "
                 "and draws (XidProof.tla); id sequences drawn by 2-64 goroutines under the Go race detector validated by TLC against the abstract "
                 "Draw action (pairwise distinct); cross-talk corpus (TLC-generated scenarios) processed sequentially vs concurrently out of reused receive buffers, judged by TLC",
                 "Xid.tla models the shared counter; TLC explores all interleavings of 3 drawers and proves Distinct for the atomic draw and "
                 "refutes it for a split read/write (the invariant is not vacuous). On the code, 2-64 goroutines draw ids through all 14 "
                 "constructors that embed a generated header, under the race detector; TLC judges the recorded per-goroutine sequences "
                 "(pairwise distinct; race reports counted).",
                 "Trusted: TLC, TLAPS (SMT / Zenon / Isabelle back ends), Json, the Go race detector; real schedules are stress-sampled, not enumerated. "
                 "The cross-talk clause compares every concurrent (and reverse-order) observation of ~500 independent TLC-generated scenarios with the "
                 "sequential one; goroutines parse out of reused receive buffers and project a value only after the next frame has arrived.", "4/C14")
CHECKS["C10"] = ("model_checking",
                 "TLC exhaustive model checking of Stream.tla (reader / parsers / consumer / failure interleavings); schedules simulated from "
                 "the spec replayed on the real MessageStream through a scripted conn + gating parser; TLC trace validation of every "
                 "recorded event log against StreamExt.tla; refinement Stream => StreamExt checked by TLC (StreamRefine.tla); 11 styles of randomly scheduled executions incl. jumbo bursts and EOF on a frame boundary",
                 "Stream.tla mirrors util/stream.go one action per channel operation; TLC checks DeliveredIntact, NoDupNoInvent, NeverAhead, "
                 "AllDeliveredAtQuiescence, ErrorAtMostOnce, ErrorIffFailed, PoolConservation and liveness on small pools for every chunking "
                 "and failure point, and refutes the aliasing variant. The same spec simulated with the real constants produces coarse "
                 "schedules that the rig imposes on the real stream; free-running and randomly scheduled executions run under -race. Every "
                 "event log is validated step by step by TLC against StreamExt.tla (the property in event form).",
                 "Trusted: TLC, Json, the rig (scripted conn, gating parser, consumer, mutex-ordered log). The rig controls goroutines only "
                 "at Read/Parse/Recv. The refinement Stream => StreamExt is machine-checked by TLC within the model bounds (StreamRefine.tla).", "4/C10")
CHECKS["C11"] = ("model_checking",
                 "TLC exhaustive model checking of StreamOut.tla (two-writer variant refuted); concurrent producers against a recording "
                 "connection under -race; TLC trace validation of the write log (re-framed byte stream) against StreamOutTrace.tla",
                 "StreamOut.tla: producers, Outbound channel (cap 1), single writer; TLC checks once-only, submitted-before-written, "
                 "per-producer order and eventual writing over all interleavings of 3 producers. On the code 1-32 producer goroutines submit "
                 "xid-tagged real messages (8 B - 65 535 B); the recorded Write calls are concatenated, re-framed by header length and validated "
                 "by TLC event by event; executions with a Write that accepts part of a frame and times out, and with an application shutdown in mid-traffic, are included (StreamOut.tla: WFail, AppShutdown / Drain / WClosed).",
                 "Trusted: TLC, Json, the rig. Real schedules are stress-sampled (write delays widen the races).", "4/C11")


_OF_NOTE = ("Trusted: my transcription of the OpenFlow 1.3.5 / nicira-ext.h / ONF bundle layouts into OFWire.tla (every disagreement with the code was "
            "triaged; one byte -- the unused table byte of the plain resubmit action -- is taken from the implementation), TLC, Json module, the "
            "reflective interpreter's name-to-constructor mapping. Enumeration is by families (one dimension exhaustive, the others minimal) with "
            "position-tagged and boundary values, not the full product; bundle-add properties are built through the API and also appear with data in specification-made frames.")
for _pid, _tech, _text in (
    ("C01", "TLC-generated construction histories (OFGen.tla families incl. maximal shapes and top-down histories) replayed on the real API; TLC judge of framing (version, type code, header length = bytes = Len())",
     "OFBuilder.tla states which abstract message every sequence of constructor / field / adder calls denotes; TLC enumerates the families (every action kind and ordered pair in every action container, every match-field constructor and pairs, instruction sequences x all 5 flow-mod commands, group-mod commands x types x buckets, all simple / multipart / vendor / bundle messages, bundle-add wrapping every kind, payload sizes, maximal shapes near 65 535 bytes, and top-down histories where a container grows after it was attached); the reflective harness executes them and TLC judges version = 4, type code = TypeCode(kind), header length = bytes produced = Len()."),
    ("C02", "TLC-generated construction histories replayed on the real API; TLC runs the independent TLV walker Walk* of OFWire.tla on the bytes the real encoder produced",
     "WalkMsg of OFWire.tla knows only declared lengths, 8-byte alignment, zero padding, legal type / subtype codes and registry widths (match, OXM, instructions, standard and Nicira actions incl. learn specs, NAT presence bitmap, conntrack nesting, buckets, hello elements, TLV maps, bundle-add with embedded message); it must consume every generated message exactly."),
    ("C03", "TLC-generated construction histories replayed on the real API; TLC judges bytes = Enc(tree) of OFWire.tla byte for byte (independent statement of the layouts)",
     "Enc of OFWire.tla is the OpenFlow 1.3 / Nicira layout written from the specifications; the tree of every scenario is built by OFBuilder.tla from the same constructor arguments and setter calls; position-tagged values make a swapped, shifted or truncated field visible; boundary patterns (zero, ones, top bit, low bit) sweep every field; every optional part (all 64 NAT combinations, masks on/off, conntrack zone immediate / range) and append / prepend orders are enumerated."),
    ("C06", "TLC-generated construction histories replayed on the real API; TLC judges Len() = bytes = size assigned by the grammar, and ordered disjoint occurrence of the children's standalone encodings inside the container",
     "For every observed object (children standalone, then the container) Len() must equal the bytes produced and the size Enc(tree) assigns (so a consistently truncating size function is seen), and the standalone encodings of the watched children must occur whole, disjoint and in order inside the parent. Packet-header kinds of protocol/ (PktGen.tla families incl. DHCP helper constructors, short names, 16-byte IPv4 addresses) are built through the API and judged by the same predicates with EncPkt as the grammar."),
    ("C13", "TLC-generated construction histories (incl. top-down histories and bundle / vendor wrappers) with interleaved repeated Len()/MarshalBinary() observers replayed on the real API; TLC judges that all answers agree",
     "Observer actions leave the abstract store unchanged: every scenario sizes and encodes each watched child and the container repeatedly in one of six orders chosen per scenario; every other scenario and every top-down history also sizes and encodes the top-level value after each API call from its creation on; packet-header kinds are included; every pair of answers for the same (observer, object) must be equal, and (with C03) equal to the specification's value."),
):
    CHECKS[_pid] = ("model_checking", _tech, _text, _OF_NOTE, "4/" + _pid)

CHECKS["C05"] = ("model_checking",
                 "TLC-generated construction corpus executed as a four-phase machine (build / encode / decode with siblings / re-encode) on the "
                 "real types; TLC judge incl. the specification's own encoder applied to the projection of the decoded value",
                 "For every watched element and every top-level message of the OFGen.tla corpus the harness encodes, decodes (elements through "
                 "their decoders with a sibling following, messages through Parse), projects both values and re-encodes; TLC requires "
                 "acceptance, same kind, equal projections, equal re-encoding, Enc(projection of decoded) = bytes, and size = own bytes.",
                 _OF_NOTE + " Kinds without a decoder are excluded; switch-originated kinds are reached through the C04 corpus.", "4/C05")
CHECKS["C09"] = ("model_checking",
                 "TLC enumeration of well-formed packet headers (PktGen.tla: packed groups exhaustively, demux table, IPv6 chains in every order) "
                 "built, encoded, decoded and re-encoded on the real types; TLC judge against PktWire.tla (RFC layouts) incl. Demux()",
                 "PktWire.tla states the header layouts from the RFCs and the demultiplexing function; TLC enumerates all 65 536 VLAN tag words, "
                 "all IPv4 flag/offset words, all fragment words, all version/IHL, DSCP/ECN, TCP offset/flag groups, IPv6 chains, IGMP counts; "
                 "every header is executed through the real encoder and decoder and judged bit for bit.",
                 "Trusted: my transcription of the RFC layouts, TLC, Json, the reflective interpreter / projector (DHCP and LLDP through a Read/Write adapter).",
                 "4/C09")

CHECKS["C04"] = ("model_checking",
                 "TLC generates switch-originated message trees (OFSwitch.tla) and their frames with the specification's own encoder; frames are "
                 "fed to the real Parse; TLC judges Go type and Enc(projection of the parsed message) = frame",
                 "The independent encoder is Enc of OFWire.tla / PktWire.tla; OFSwGen.tla enumerates every switch-originated kind x list lengths "
                 "0/1/2/5 x packet kinds x every decodable match-field kind; the parsed message is projected by name and read back by the same "
                 "specification encoder: equality with the frame means every wire-carried field equals what was written.",
                 _OF_NOTE + " Known finding: OpenFlow 1.0 record layouts of table/port/queue stats (by kind).", "4/C04")
CHECKS["C12"] = ("model_checking",
                 "parse / scribble / observe histories on TLC-generated frames executed on the real Parse; TLC judges that every snapshot after an "
                 "overwrite of the input buffer equals the first snapshot",
                 "For every frame of the OFSwGen.tla corpus that Parse accepts: snapshot (projection, re-encoding, size), overwrite the input "
                 "buffer with four patterns, snapshot again; TLC requires equality. Covers packet-in payload chains (Ethernet / IPv4 / IPv6 with "
                 "extension headers and options / ARP / ICMP / UDP), match fields, instructions, all action kinds, vendor and bundle nesting.",
                 "Trusted: TLC, Json, projector. Frames are specification-conformant ones (mutated-but-accepted frames are exercised by C07's corpus "
                 "only for totality). The stream check C10 exercises the same property with recycled pool buffers.", "4/C12")

CHECKS["C07"] = ("model_checking",
                 "OFMutate.tla enumerates the mutation space (every truncation, every byte / 16-bit position x boundary values, fills, extensions, "
                 "pairs of length-like fields) over specification-made base frames of every kind Parse dispatches; each mutant is fed to the real "
                 "Parse in a watched child process; TLC judges the acceptor (message or error, bounded time and memory)",
                 "Base frames are Enc(tree) of OFSwGen.tla (switch- and controller-originated kinds, packet-in with packets, every action kind); "
                 "OFMutate.tla lists the mutants as descriptors; the harness applies them and records for every mutant one of msg / err / panic / "
                 "hang (CPU budget, confirmed alone) / heap; TotalTrace.tla accepts only msg and err for all of them.",
                 "Trusted: TLC, Json, the watchdog (CPU time of the child, heap cap). The specification generates the input space and accepts "
                 "outcomes; it does not model the decoders. Exhaustive in single mutations over every position; depth 2 only on length-like pairs.",
                 "4/C07")
CHECKS["C08"] = ("model_checking",
                 "OFMutate.tla mutation space over specification-made packets for each of the 23 decoder entry points (incl. jumbo frames), run on "
                 "the real decoders in a watched child process; TLC judges the acceptor (value or error, bounded time and memory)",
                 "Base frames are EncPkt(tree) of PktGen.tla for Ethernet/VLAN, ARP, IPv4, IPv6 and its extension headers and options, ICMP, TCP, "
                 "UDP, IGMP v1-v3, DHCP and its option list, LLDP TLVs; every length-like byte (IHL, HEL, option length, hardware length) and "
                 "16-bit count takes 0, 1, maximum and wrap-around values at every position.",
                 "Trusted: as C07. LLDP frames are decoded TLV by TLV (the LLDP container has no decoder of its own).", "4/C08")

NOT_YET = {
}

NOT_APPLICABLE = []

HOOK_COMMITS = ["b94cb78"]


def main():
    props = [json.loads(l)["id"] for l in open(os.path.join(VERIF, "properties.jsonl"))]
    checks = []
    for pid in props:
        if pid not in CHECKS:
            continue
        cat, tech, text, note, ref = CHECKS[pid]
        checks.append(dict(
            property_id=pid,
            quick_cmd="bin/check %s --tier quick" % pid,
            thorough_cmd="bin/check %s --tier thorough" % pid,
            evidence_file="/verif/evidence/%s.json" % pid,
            replay_cmd_template="bin/check --replay {path}",
            engine="tlc+go-harness",
            level_claimed=dict(category=cat, text=text, design_ref="DESIGN.md section " + ref),
            level_note=note,
            technique=tech))
    na = list(NOT_APPLICABLE)
    for pid in props:
        if pid not in CHECKS and pid not in [x["property_id"] for x in na]:
            na.append(dict(property_id=pid, reason=NOT_YET.get(
                pid, "check not built yet in this round (planned: DESIGN.md section 4); not claimed until it passes its definition of done")))
    m = dict(
        version=1,
        setup_cmd="bin/setup",
        hooks=dict(guard="verif", enable="go build -tags verif (the harness module replaces github.com/contiv/libOpenflow with /repo)",
                   baseline_off_cmd="cd /repo && GOFLAGS=-mod=mod go test -vet=off -count=1 ./openflow13/... ./protocol/...",
                   source_commits=HOOK_COMMITS, add_only=True),
        engines=[dict(name="tlc+go-harness", path="/verif/bin/check",
                      serves_properties=[c["property_id"] for c in checks],
                      kind_free_text="TLA+ specifications (spec/*.tla) checked and used as generator and trace judge by TLC; "
                                     "Go harness (harness/) replays scenarios on the real API and records observations")],
        checks=checks,
        notes="Exit codes: 0 held (KNOWN-FINDING lines allowed), 1 VIOLATION (reproduced from its replay file), 2 no verdict "
              "(infrastructure). VERIF_SEED / VERIF_TIER are honoured. See DESIGN.md.",
        not_applicable=na)
    with open(os.path.join(VERIF, "MANIFEST.json"), "w") as fh:
        json.dump(m, fh, indent=1)
        fh.write("\n")
    try:
        import jsonschema
        jsonschema.validate(m, json.load(open("/root/.vp/MANIFEST.schema.json")))
        print("MANIFEST.json valid:", len(checks), "checks,", len(na), "not claimed")
    except ImportError:
        print("MANIFEST.json written (jsonschema not available to validate)")


if __name__ == "__main__":
    main()
