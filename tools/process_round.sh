#!/bin/bash
# tools/process_round.sh <round letter> : confirm every sub-agent worktree /tmp/mut-<ID>-<letter> (tools/confirm_mutant.sh), store it under
# seeded/, run the check of its property against it (tools/try_mutant_par.sh, quick) and print one line per change.
L=$1
cd "$(dirname "$0")/.."
for w in /tmp/mut-C*-$L; do
  [ -f $w/meta.json ] || { echo "$(basename $w): no meta.json"; continue; }
  n=$(basename $w); n=${n#mut-}; p=${n%%-*}
  c=$(tools/confirm_mutant.sh $w $n 2>&1 | tail -1)
  case "$c" in CONFIRMED*) ;; *) echo "$n NOT CONFIRMED: $c"; continue;; esac
  r=$(tools/try_mutant_par.sh $n $p quick 2>&1 | tail -1)
  echo "$n $r"
done
