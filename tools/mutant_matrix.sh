#!/bin/bash
# Runs every seeded change against the check of its property (quick tier) and writes seeded/MATRIX.md.
cd /verif
out=seeded/MATRIX.md
echo "| seeded change | property | what it needs to manifest | check result (quick tier) |" > $out
echo "|---|---|---|---|" >> $out
for d in seeded/*/; do
  m=$(basename $d); p=${m%%-*}
  needs=$(python3 -c "import json,sys;d=json.load(open('$d/meta.json'));print((d.get('status_on_current_tree') or d.get('needs','')).replace('|','/').replace('\n',' ')[:260])")
  if python3 -c "import json,sys;sys.exit(0 if 'status_on_current_tree' in json.load(open('$d/meta.json')) else 1)"; then
    res="not applicable to the current tree (superseded by a fix)"
  else
    r=$(tools/try_mutant.sh $m $p quick 2>&1 | tail -1)
    case "$r" in *rc=1*) res="caught: $p exits 1 with a VIOLATION and replay file";; *rc=0*) res="MISSED";; *) res="no verdict ($r)";; esac
  fi
  echo "| $m | $p | $needs | $res |" >> $out
  echo "$m $res"
done
rm -rf replays
