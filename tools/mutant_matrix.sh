#!/bin/bash
# Runs every seeded change against the check of its property (quick tier; meta.json "checked_by" names further checks to run) and
# writes seeded/MATRIX.md.  Each change is applied to a scratch worktree of /repo HEAD (tools/try_mutant_par.sh); /repo is not touched.
# MATRIX_JOBS=n runs n changes at a time.  MATRIX_GLOB='*-l' re-runs only the matching changes and keeps the other rows of MATRIX.md.
cd "$(dirname "$0")/.."
out=seeded/MATRIX.md
rows=$(mktemp -d /tmp/matrix-rows-XXXXXX)
one() {
  d=$1; m=$(basename $d); p=${m%%-*}
  [ -f $d/meta.json ] || return
  needs=$(python3 -c "import json,sys;d=json.load(open('$d/meta.json'));print((d.get('status_on_current_tree') or d.get('needs','')).replace('|','/').replace('\n',' ')[:260])")
  if python3 -c "import json,sys;sys.exit(0 if 'status_on_current_tree' in json.load(open('$d/meta.json')) else 1)"; then
    res="not applicable to the current tree (superseded by a fix)"
  else
    res=""
    for c in $p $(python3 -c "import json;print(' '.join(json.load(open('$d/meta.json')).get('checked_by',[])))"); do
      r=$(tools/try_mutant_par.sh $m $c quick 2>&1 | tail -1)
      case "$r" in *rc=1*) res="$res caught: $c exits 1 with a VIOLATION and replay file;";; *rc=0*) res="$res not reported by $c;";; *) res="$res no verdict from $c ($r);";; esac
    done
    note=$(python3 -c "import json;print(json.load(open('$d/meta.json')).get('matrix_note','').replace('|','/'))")
    [ -n "$note" ] && res="$res $note"
  fi
  echo "| $m | $p | $needs | $res |" > $2/$m.row
  echo "$m $res"
}
export -f one
ls -d seeded/${MATRIX_GLOB:-*}/ | xargs -P ${MATRIX_JOBS:-1} -I{} bash -c 'one {} '$rows
if [ -n "$MATRIX_GLOB" ] && [ -f $out ]; then   # keep the rows of the changes that were not re-run
  grep '^| C' $out | while IFS= read -r line; do m=$(echo "$line" | cut -d'|' -f2 | tr -d ' '); [ -f $rows/$m.row ] || echo "$line" > $rows/$m.row; done
fi
echo "| seeded change | property | what it needs to manifest | check result (quick tier) |" > $out
echo "|---|---|---|---|" >> $out
cat $(ls $rows/*.row | sort) >> $out
rm -rf $rows replays
