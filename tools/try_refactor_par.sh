#!/bin/bash
# tools/try_refactor_par.sh <patch.diff> <outdir> [check id...] : false-alarm experiment that leaves /repo alone.
# A scratch worktree of /repo HEAD gets the (behaviour-preserving) patch; every check's quick tier is run against it
# (VERIF_REPO), evidence and replays go to <outdir>.  Every check must exit 0.
P=$1; OUT=$2; shift 2
CHECKS=${@:-C01 C02 C03 C04 C05 C06 C07 C08 C09 C10 C11 C12 C13 C14 C15 C16 C17 C18 C19}
cd "$(dirname "$0")/.."
W=$(mktemp -d /tmp/refwt-XXXXXX); rmdir $W
git -C /repo worktree add --detach $W HEAD >/dev/null 2>&1 || { echo "worktree failed"; exit 2; }
trap 'git -C /repo worktree remove --force $W >/dev/null 2>&1; rm -rf $W' EXIT
git -C $W apply "$P" || { echo "patch does not apply: $P"; exit 2; }
(cd $W && GOFLAGS=-mod=mod GOPROXY=off GOSUMDB=off GOTOOLCHAIN=local go build ./... ) || { echo "does not build: $P"; exit 2; }
mkdir -p $OUT
for c in $CHECKS; do
  VERIF_REPO=$W VERIF_OUT=$OUT bin/check $c --tier quick > $OUT/$c.out 2> $OUT/$c.err; rc=$?
  echo "$(basename $P) $c rc=$rc $(grep -c VIOLATION $OUT/$c.out) viol"
done
