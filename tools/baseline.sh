#!/bin/bash
# Runs the repository's stable baseline (33 tests) with the verif tag OFF and compares with BASELINE.json.
export GOFLAGS=-mod=mod GOPROXY=off GOSUMDB=off GOTOOLCHAIN=local
cd /repo && go build ./... || exit 1
go test -vet=off -count=1 -json ./openflow13/... ./protocol/... ./common/... ./util/... ./ofbase/... > /tmp/baseline.$$.json 2>&1
python3 - /tmp/baseline.$$.json <<'PY'
import json,sys
want=set(json.load(open('/root/.vp/BASELINE.json'))['stable_pass'])
got=set()
for l in open(sys.argv[1]):
    try: e=json.loads(l)
    except ValueError: continue
    if e.get('Action')=='pass' and e.get('Test'): got.add(e['Package']+'::'+e['Test'])
missing=want-got
print("baseline: %d/%d stable tests pass"%(len(want&got),len(want)))
if missing: print("MISSING:",sorted(missing)); sys.exit(1)
PY
rc=$?; rm -f /tmp/baseline.$$.json; exit $rc
