#!/bin/bash
# try_mutant_par.sh <seeded name> <property id> [tier] : like try_mutant.sh but leaves /repo alone: the seeded change is applied to a
# scratch worktree of /repo HEAD and the check runs against it (VERIF_REPO); evidence and replays go to a scratch directory.
NAME=$1; PID=$2; TIER=${3:-quick}
cd "$(dirname "$0")/.."
W=$(mktemp -d /tmp/mutwt-XXXXXX); rmdir $W
O=$(mktemp -d /tmp/mutout-XXXXXX)
git -C /repo worktree add --detach $W HEAD >/dev/null 2>&1 || { echo "worktree failed"; exit 2; }
trap 'git -C /repo worktree remove --force $W >/dev/null 2>&1; rm -rf $W $O' EXIT
git -C $W apply $PWD/seeded/$NAME/patch.diff || { echo "patch does not apply"; exit 2; }
VERIF_REPO=$W VERIF_OUT=$O bin/check $PID --tier $TIER > $O/out 2> $O/err; rc=$?
grep -E 'VIOLATION|KNOWN-FINDING' $O/out | head -3
tail -1 $O/err
echo "mutant=$NAME check=$PID tier=$TIER rc=$rc"
