#!/usr/bin/env python3
"""Splices seeded/MATRIX.md into DESIGN.md section 12 (between the MATRIX markers)."""
import os, re
V = os.path.dirname(os.path.dirname(os.path.abspath(__file__)))
m = open(os.path.join(V, "seeded", "MATRIX.md")).read().strip()
rows = [l for l in m.splitlines()[2:] if l.startswith("|")]
caught = sum(1 for r in rows if " caught:" in r.split("|")[4])
na = sum(1 for r in rows if "not applicable" in r.split("|")[4])
missed = [r.split("|")[1].strip() for r in rows if " caught:" not in r.split("|")[4] and "not applicable" not in r.split("|")[4]]
head = "%d seeded changes, %d not applicable any more (superseded by a fix), %d reported by a check (quick tier), not reported: %s.\n\n" % (
    len(rows), na, caught, ", ".join(missed) or "none")
p = os.path.join(V, "DESIGN.md")
s = open(p).read()
s = re.sub(r"<!-- MATRIX BEGIN -->.*?<!-- MATRIX END -->", lambda _: "<!-- MATRIX BEGIN -->\n" + head + m + "\n<!-- MATRIX END -->", s, flags=re.S)
open(p, "w").write(s)
print(head)
