#!/bin/bash
# confirm_mutant.sh <agent worktree> <seeded name>
# Re-checks a sub-agent's change independently in a fresh scratch worktree of /repo HEAD:
# patch applies, builds, existing tests pass, demo fails with it and passes without it.
# On success stores patch.diff, the demo and meta.json under /verif/seeded/<name>/.
set -u
export GOFLAGS=-mod=mod GOPROXY=off GOSUMDB=off GOTOOLCHAIN=local
SRC=$1; NAME=$2
W=$(mktemp -d /tmp/confirm-XXXXXX); rmdir $W
git -C /repo worktree add --detach $W HEAD >/dev/null 2>&1 || { echo "worktree failed"; exit 2; }
cleanup() { git -C /repo worktree remove --force $W >/dev/null 2>&1; rm -rf $W; }
trap cleanup EXIT
cd $W
DEMO_CMD=$(python3 -c "import json;print(json.load(open('$SRC/meta.json'))['demo_cmd'])")
# copy demo files (untracked files in the agent's worktree, except deliverables)
(cd $SRC && git ls-files --others --exclude-standard | grep -v -e '^patch.diff$' -e '^meta.json$') > /tmp/demo_files.$$ 
while read f; do mkdir -p $(dirname $f); cp $SRC/$f $f; done < /tmp/demo_files.$$
echo "== demo WITHOUT patch (must pass)"
if ! bash -c "$DEMO_CMD" > /tmp/demo_without.$$ 2>&1; then echo "FAIL: demo fails on pristine tree"; tail -20 /tmp/demo_without.$$; exit 1; fi
git apply $SRC/patch.diff || { echo "FAIL: patch does not apply"; exit 1; }
echo "== build"
go build ./... || { echo "FAIL: build"; exit 1; }
echo "== existing tests WITH patch (must pass)"
# hide demo files while running the existing suite
while read f; do mv $f $f.hidden; done < /tmp/demo_files.$$
if ! go test -vet=off -count=1 ./openflow13/... ./protocol/... ./common/... ./util/... ./ofbase/... > /tmp/suite.$$ 2>&1; then echo "FAIL: existing tests fail with patch"; tail -20 /tmp/suite.$$; exit 1; fi
while read f; do mv $f.hidden $f; done < /tmp/demo_files.$$
echo "== demo WITH patch (must fail)"
if bash -c "$DEMO_CMD" > /tmp/demo_with.$$ 2>&1; then echo "FAIL: demo passes with patch"; exit 1; fi
D=/verif/seeded/$NAME; mkdir -p $D/demo
cp $SRC/patch.diff $D/patch.diff
while read f; do mkdir -p $D/demo/$(dirname $f); cp $SRC/$f $D/demo/$f; done < /tmp/demo_files.$$
python3 - <<PY
import json
m=json.load(open('$SRC/meta.json'))
m['confirmed']={'by':'tools/confirm_mutant.sh in a fresh worktree of /repo HEAD $(git -C /repo rev-parse --short HEAD)',
 'patch_applies':True,'builds':True,'existing_tests_pass_with_patch':True,'demo_fails_with_patch':True,'demo_passes_without_patch':True,
 'demo_files':[l.strip() for l in open('/tmp/demo_files.$$')]}
m['ran']=['go build ./...','go test -vet=off -count=1 ./openflow13/... ./protocol/... ./common/... ./util/... ./ofbase/...', m['demo_cmd']]
json.dump(m,open('$D/meta.json','w'),indent=1)
PY
tail -5 /tmp/demo_with.$$
rm -f /tmp/demo_files.$$ /tmp/demo_with.$$ /tmp/demo_without.$$ /tmp/suite.$$
echo "CONFIRMED -> $D"
