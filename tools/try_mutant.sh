#!/bin/bash
# try_mutant.sh <seeded name> <property id> [tier]  -- apply the seeded change to /repo, run the check, undo.
NAME=$1; PID=$2; TIER=${3:-quick}
cd /verif
if ! git -C /repo diff --quiet; then echo "/repo has uncommitted changes; refusing"; exit 2; fi
git -C /repo apply /verif/seeded/$NAME/patch.diff || { echo "patch does not apply"; exit 2; }
trap 'git -C /repo checkout -- . ' EXIT
cp evidence/$PID.json /tmp/ev.$PID.$$ 2>/dev/null
bin/check $PID --tier $TIER > /tmp/try.$NAME.out 2> /tmp/try.$NAME.err; rc=$?
cp /tmp/ev.$PID.$$ evidence/$PID.json 2>/dev/null; rm -f /tmp/ev.$PID.$$
grep -E 'VIOLATION|KNOWN-FINDING' /tmp/try.$NAME.out | head -5
tail -2 /tmp/try.$NAME.err
echo "mutant=$NAME check=$PID tier=$TIER rc=$rc"
