#!/usr/bin/env python3
"""Summarise judge reject records found in a kept scratch directory: tools/rejects.py <scratch> [n]"""
import collections, glob, json, sys
d = sys.argv[1]
n = int(sys.argv[2]) if len(sys.argv) > 2 else 3
groups = collections.OrderedDict()
for f in sorted(glob.glob(d + '/judge-*/*.out')):
    for l in open(f, errors='replace'):
        if not l.startswith('"'):
            continue
        try:
            o = json.loads(json.loads(l))
        except ValueError:
            continue
        if 'reject' not in o:
            continue
        det = o.get('detail') or {}
        key = (o.get('prop'), o.get('pred', '')[:60], det.get('kind'))
        groups.setdefault(key, []).append(o)
for key, rs in groups.items():
    print('==', key, len(rs))
    for o in rs[:n]:
        det = o.get('detail') or {}
        print('   ', o.get('id'), det.get('obj'))
        if 'expected' in det:
            e, g = det['expected'], det['observed']
            k = next((i for i in range(min(len(e), len(g))) if e[i] != g[i]), min(len(e), len(g)))
            print('      len exp %d obs %d first diff at %d' % (len(e), len(g), k))
            print('      exp', e[max(0, k - 8):k + 16])
            print('      obs', g[max(0, k - 8):k + 16])
