#!/usr/bin/env python3
"""tools/rtdiff.py <trace.ndjson> <scenario id> : show where decoded projection differs from the original."""
import json, sys
def diff(a, b, path, out):
    if type(a) != type(b):
        out.append((path, a, b)); return
    if isinstance(a, dict):
        for k in sorted(set(a) | set(b)):
            if k not in a or k not in b:
                out.append((path + '.' + k, a.get(k, '<absent>'), b.get(k, '<absent>')))
            else:
                diff(a[k], b[k], path + '.' + k, out)
    elif isinstance(a, list) and a and isinstance(a[0], (dict, list)):
        if len(a) != len(b):
            out.append((path + '.len', len(a), len(b)))
        for i, (x, y) in enumerate(zip(a, b)):
            diff(x, y, '%s[%d]' % (path, i), out)
    elif a != b:
        out.append((path, a, b))
for l in open(sys.argv[1]):
    o = json.loads(l)
    if o['id'] != sys.argv[2]:
        continue
    for r in o['obs'].get('results', []):
        out = []
        if 'dec' in r:
            diff(r['orig'], r['dec'], '', out)
        flags = {k: r[k] for k in ('err', 'nil', 'via', 'panic', 'where', 'declen') if k in r}
        if out or r.get('reenc') != r.get('bytes') or 'panic' in r or r.get('err'):
            print(r['obj'], r.get('origtype'), flags, 'len(bytes)=%d' % len(r.get('bytes', [])), 'reenc_equal=%s' % (r.get('reenc') == r.get('bytes')))
            for p, x, y in out[:8]:
                print('    ', p, 'orig=', str(x)[:80], 'dec=', str(y)[:80])
