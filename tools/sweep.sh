#!/bin/bash
# tools/sweep.sh <tier> <seed>... : runs every registered check on the unchanged tree and reports exit codes (evidence files are restored afterwards).
tier=$1; shift
cd "$(dirname "$0")/.."
mkdir -p /tmp/w/ev && cp evidence/*.json /tmp/w/ev/ 2>/dev/null
for seed in "$@"; do
  for c in C01 C02 C03 C04 C05 C06 C07 C08 C09 C10 C11 C12 C13 C14 C15 C16 C17 C18 C19; do
    t0=$(date +%s)
    VERIF_SEED=$seed bin/check $c --tier $tier > /tmp/w/sweep.$c.$seed.out 2> /tmp/w/sweep.$c.$seed.err; rc=$?
    echo "$c tier=$tier seed=$seed rc=$rc $(( $(date +%s) - t0 ))s $(grep -c VIOLATION /tmp/w/sweep.$c.$seed.out) viol"
  done
done
cp /tmp/w/ev/*.json evidence/ 2>/dev/null
